"""C05 - Export and indicators are deterministic, reproducible and history-independent."""
import re

from ..cfgq import Scope, strip
from ..exprs import leaf_name, short_callee, show, walk
from ..facts import AnalysisError
from ..mir import callee_name, callee_of, pl_local, pl_proj, op_const
from .. import types as T

ID = "C05"
LEVEL = "proof"
RULE_TEXT = ("who-may-call from the conversion/serialisation/indicator roots to nondeterminism sources; every hash-container call site in reachable "
             "code classified order-insensitive or excepted; provenance of every uuid_from_obj/uuid_from_str argument; interior-mutable statics and "
             "mutable access to their guards; lock-order graph")
EXPLANATION = ("D1 no nondeterminism source reachable; D2 hash-ordered containers never order output and never occur in the model or in id inputs; "
               "D3 an id depends only on the element (no index/len/counter/static in the hashed value); D4 shared tables are read-only after "
               "initialisation (no DerefMut on guards, no static mut, no unsafe); D5 lock-order graph acyclic (no nested acquisition)")
DECIDED = ["D1 no nondeterminism source reachable from conversion, (de)serialisation and indicators", "D2 hash containers never order output",
           "D3 ids depend only on the element's own definition", "D4 shared tables read-only after initialisation", "D5 no nested lock acquisition, no unsafe",
           "D7 no try_lock on a shared table; an id is never hashed from a list that is being filled in the same loop"]
UNDECIDED = ["shipped reference projects convert exactly to the shipped reference models (needs the conversion to run)",
             "bit-identical float sums across thread schedules beyond what D2-D4 imply"]
ASSUMPTIONS = ["external crates introduce no nondeterminism beyond RandomState of std hash containers", "once_cell::Lazy and std Mutex have documented semantics"]
LEVEL_TEXT = ("Proof by effect analysis over the type-checked workspace: from the conversion, JSON and indicator entry points no call to a randomness/time/"
              "environment source is reachable; every HashMap/HashSet operation in reachable code is order-insensitive (or an excepted per-entry update); "
              "no hash container occurs in the Model type closure nor in any type hashed into an id; no id argument depends on an index, length, counter or "
              "static; the only interior-mutable statics are the three Lazy<Mutex<..>> climate tables, never mutably dereferenced, never locked nested, and "
              "there is no unsafe. These facts hold for every input, thread schedule and history; they do not establish that the shipped reference files reproduce.")
LEVEL_NOTE = "Trusted: rustc MIR/Instance resolution and trait selection (driver), std/once_cell/serde semantics; Linux cfg only."
TECHNIQUE = "effect (who-may-call) analysis + hash-container call-site classification + id-argument provenance + static/lock inventory"
FIXTURE_EXPECT = ["c05.nondet", "c05.hashorder", "c05.idprov"]

NONDET = re.compile(r"Uuid>?::new_v4|new_v4|SystemTime|Instant>?::now|(^|::)rand::|env::var|env::vars|env::args|thread::current|getrandom|"
                    r"chrono::.*::now|Local::now|Utc::now|thread_rng|process::id|ThreadId|Pointer>?::fmt|new_pointer|DefaultHasher::new|RandomState::new")
HASH = re.compile(r"collections::(hash::)?(map::|set::)?Hash(Map|Set)|hash_map::|hash_set::|hash::map::|hash::set::")
ORDER_FREE = {"new", "with_capacity", "contains", "contains_key", "get", "get_mut", "insert", "entry", "len", "is_empty", "remove",
              "extend", "from_iter", "collect", "default", "or_insert", "or_insert_with", "or_default", "and_modify", "clear", "reserve",
              "get_or_insert_with", "clone", "eq", "ne", "index", "from", "drop", "fmt_never", "with_hasher", "with_capacity_and_hasher",
              "get_key_value", "retain", "is_subset", "is_superset", "is_disjoint", "take", "replace", "remove_entry", "shrink_to_fit", "capacity",
              "or_insert_with_key", "key", "into_mut"}
ORDER_SENSITIVE = {"iter", "iter_mut", "into_iter", "keys", "values", "values_mut", "drain", "into_keys", "into_values", "fmt", "serialize",
                   "next", "for_each", "union", "intersection", "difference", "symmetric_difference"}


def roots(ctx, prog):
    r = [prog.find("hulc2model::collect_hulc_data").id]
    conv = [x for x in prog.fns.values() if x.raw.get("impl_trait", "") and "TryFrom" in x.raw.get("impl_trait", "")
            and x.raw.get("impl_self", "").endswith("types::model::Model") and x.id.endswith("::try_from")]
    ctx.require(conv, "anchor Model::try_from not found")
    r += [c.id for c in conv]
    for n in ("as_json", "from_json", "energy_indicators"):
        r.append(prog.method("types::model::Model", None, n).id)
    r.append(prog.method("energy::indicators::types::EnergyIndicators", None, "as_json").id)
    return r


def scan_nondet(ctx, prog, seen, rule="c05.nondet"):
    n = 0
    for fid in sorted(seen):
        fn = prog.fns[fid]
        for (name, ln, t) in ctx.cg.ext_calls[fid]:
            c = callee_of(t)
            if NONDET.search(name) or (c and NONDET.search(c["fn"])):
                n += 1
                disp = prog.display(fn)
                k = sum(1 for i in ctx.instances if i.key.startswith("%s|%s|%s|" % (rule, disp, short_callee(name))))
                ctx.violation(rule, "%s|%s|%s|%d" % (rule, disp, short_callee(name), k),
                              "nondeterminism source `%s` reachable: %s" % (name, ctx.cg.pretty_chain(seen, fid)), fn.loc(ln))
        # pointer-to-integer casts
        for b, i, s in fn.body.statements():
            if s["s"] == "assign" and s["rv"]["r"] == "cast" and "PointerExposeProvenance" in s["rv"]["kind"]:
                if s.get("mb"):
                    continue
                ctx.violation(rule, "%s|%s|ptr2int" % (rule, prog.display(fn)), "pointer-to-integer cast (address-dependent value)", fn.loc(s.get("ln")))
    return n


def hash_sites(ctx, prog, seen):
    """every call whose callee is a method of a hash container (receiver type), in reachable bodies"""
    sites = []
    for fid in sorted(seen):
        fn = prog.fns[fid]
        if fn.raw.get("impl_derived"):
            continue
        body = fn.body
        for b, t in body.calls():
            c = callee_of(t)
            if not c:
                continue
            nm = c.get("rfn") or c["fn"]
            if not HASH.search(nm):
                # iterator adaptors over hash iterators: receiver type
                if t["args"]:
                    from ..mir import op_place
                    p = op_place(t["args"][0])
                    if (p is not None and isinstance(p, int) and HASH.search(body.local_ty(p)) and not ITER_TYPES.search(body.local_ty(p))
                            and short_callee(nm) in ORDER_SENSITIVE):
                        sites.append((fn, t, nm, short_callee(nm)))
                continue
            if ITER_TYPES.search(nm):
                continue   # consumption of an iterator already counted at its creation site
            sites.append((fn, t, nm, short_callee(nm)))
    return sites


ITER_TYPES = re.compile(r"hash_map::(Iter|IterMut|Keys|Values|ValuesMut|Drain|IntoIter|IntoKeys|IntoValues)|hash_set::(Iter|Drain|IntoIter|Union|Intersection|Difference)|hash::map::Iter|hash::set::Iter")


def per_entry_loop(body, t):
    """True iff the hash iterator created by call `t` is consumed by a `for` loop whose body only updates the
    visited entry itself (no write to anything defined outside the loop, no call besides next): the result is then
    independent of the iteration order."""
    from ..dataflow import uses_of
    from ..mir import op_place
    cur = pl_local(t["dest"])
    iter_local = None
    for _ in range(4):
        us = uses_of(body, cur)
        nxt = None
        for u in us:
            if u[0] == "term" and u[2]["t"] == "call" and short_callee(callee_name(u[2]) or "") == "into_iter":
                nxt = pl_local(u[2]["dest"])
            elif u[0] == "st" and u[3]["rv"]["r"] == "use" and isinstance(u[3]["p"], int):
                nxt = u[3]["p"]
        if nxt is None:
            break
        cur = nxt
        iter_local = cur
    if iter_local is None:
        return False
    # the `next` call on &mut iter_local
    next_bb = None
    for b, tt in body.calls():
        if short_callee(callee_name(tt) or "") == "next":
            # argument derives from &mut iter_local
            p = op_place(tt["args"][0])
            if p is None:
                continue
            l = pl_local(p)
            seen = set()
            ok = False
            while l not in seen:
                seen.add(l)
                if l == iter_local:
                    ok = True
                    break
                d = body.single_def(l)
                if not d or d[0] != "st" or d[3]["rv"]["r"] not in ("ref", "use"):
                    break
                src = d[3]["rv"].get("p", None)
                if src is None:
                    src = op_place(d[3]["rv"]["a"])
                if src is None:
                    break
                l = pl_local(src)
            if ok:
                next_bb = b
                elem_src = pl_local(tt["dest"])
    if next_bb is None:
        return False
    loops = body.loops()
    loop = None
    for h, blocks in loops.items():
        if next_bb in blocks:
            if loop is None or len(blocks) < len(loop):
                loop = blocks
    if loop is None:
        return False
    defs_in_loop = {}
    for b in loop:
        for s in body.blocks[b]["st"]:
            if s["s"] == "assign":
                pr = pl_proj(s["p"])
                if pr and pr[0] == "*":
                    continue     # write through a pointer: the pointer local itself is checked below
                defs_in_loop.setdefault(pl_local(s["p"]), 0)
                defs_in_loop[pl_local(s["p"])] += 1
    alldefs = body.defs()
    for b in loop:
        tt = body.blocks[b]["term"]
        if tt["t"] == "call" and b != next_bb:
            return False
        for s in body.blocks[b]["st"]:
            if s["s"] != "assign":
                continue
            l = pl_local(s["p"])
            if body.local_ty(l) == "()":
                continue
            pr = pl_proj(s["p"])
            if pr and pr[0] == "*":
                # the pointer written through must itself be a loop-local value (derived from the visited entry)
                if len(alldefs.get(l, [])) != defs_in_loop.get(l, 0) or l <= body.argc:
                    return False
                continue
            # every definition of the written local must sit inside the loop (loop-local temporary or the element ref)
            if len(alldefs.get(l, [])) != defs_in_loop.get(l, 0) + (1 if l == elem_src else 0) and l != elem_src:
                return False
            if l <= body.argc:
                return False
    return True


def per_entry_for_each(prog, fn, term):
    """`map.values_mut().for_each(|v| ..)` (or a function item): the iterator goes straight into for_each and the callee has no mutable capture"""
    from ..cfgq import closure_id_of, fn_item_of
    from ..exprs import ExprBuilder
    body = fn.body
    dest = term["dest"]
    if not isinstance(dest, int):
        return False
    eb = ExprBuilder(body)
    for b, t in body.calls():
        if short_callee(callee_name(t) or "") != "for_each" or len(t["args"]) != 2:
            continue
        a0 = t["args"][0]
        p = a0.get("m", a0.get("c")) if isinstance(a0, dict) else None
        src = p
        # follow plain moves back to the iterator local
        for _ in range(3):
            if isinstance(src, int) and src != dest:
                d = body.single_def(src)
                if d and d[0] == "st" and d[3]["rv"]["r"] == "use":
                    q = d[3]["rv"]["a"]
                    src = q.get("m", q.get("c")) if isinstance(q, dict) else None
                    continue
            break
        if src != dest:
            continue
        cl = strip(eb.operand(t["args"][1]))
        cid = closure_id_of(cl)
        if cid in prog.fns:
            # captures: by-value copies or shared references only (a `&mut` capture could accumulate across entries): look at how each captured
            # operand of the closure aggregate is produced in this body
            for b2, i2, s2 in body.statements():
                if s2["s"] == "assign" and s2["rv"]["r"] == "agg" and s2["rv"].get("closure") == cid:
                    for o in s2["rv"]["ops"]:
                        q = o.get("m", o.get("c")) if isinstance(o, dict) else None
                        if isinstance(q, int):
                            d = body.single_def(q)
                            if d and d[0] == "st" and d[3]["rv"]["r"] == "ref" and d[3]["rv"].get("mut"):
                                return False
                            if "&mut" in body.local_ty(q):
                                return False
            return True
        if fn_item_of(cl):
            return True
    return False


def run(ctx):
    prog = ctx.prog
    rts = roots(ctx, prog)
    seen = ctx.cg.reachable(rts)
    ctx.floor("c05.reach", "bodies reachable from the determinism roots", len(seen), 500)
    scan_nondet(ctx, prog, seen)
    ctx.ok("c05.nondet", "c05.nondet|scan", "%d reachable bodies, %d external call sites scanned for randomness/time/env/pointer sources"
           % (len(seen), sum(len(ctx.cg.ext_calls[f]) for f in seen)), None)
    # new_v4 exists in the workspace (Default impls) -- show they are outside the reachable set (informational instance)
    v4 = [f for f in prog.fns.values() if any("new_v4" in n for (n, _, _) in ctx.cg.ext_calls[f.id])]
    for f in v4:
        if f.id not in seen:
            ctx.ok("c05.nondet", "c05.nondet|unreachable|%s" % prog.display(f), "calls Uuid::new_v4 but is not reachable from any determinism root", f.loc())

    # D2 hash containers
    sites = hash_sites(ctx, prog, seen)
    ctx.floor("c05.hashorder", "hash-container call sites", len(sites), 25)
    counts = {}
    for (fn, t, nm, sc) in sites:
        disp = prog.display(fn)
        k = counts.get((disp, sc), 0)
        counts[(disp, sc)] = k + 1
        key = "c05.hashorder|%s|%s|%d" % (disp, sc, k)
        if sc in ORDER_FREE:
            ctx.ok("c05.hashorder", key, "order-insensitive `%s`" % sc, fn.loc(t.get("ln")))
        elif sc in ("iter_mut", "values_mut") and per_entry_loop(fn.body, t):
            ctx.ok("c05.hashorder", key, "`%s` consumed by a loop that only updates the visited entry itself (order-independent)" % sc, fn.loc(t.get("ln")))
        elif sc in ("iter_mut", "values_mut") and per_entry_for_each(prog, fn, t):
            ctx.ok("c05.hashorder", key, "`%s().for_each(f)` where f captures nothing mutable and returns (): each entry is updated on its own (order-independent)" % sc, fn.loc(t.get("ln")))
        else:
            ctx.violation("c05.hashorder", key, "iteration-order-dependent use `%s` of a hash container in code reachable from conversion/indicators (%s)" % (sc, nm), fn.loc(t.get("ln")))
    # no hash container in the Model closure
    model = prog.adt("bemodel::types::model::Model")
    wseen, ext, fields = T.closure(prog, [model["id"]])
    ctx.floor("c05.modeltypes", "types in the Model closure", len(wseen), 25)
    bad = [(k, v) for k, v in ext.items() if "HashMap" in k or "HashSet" in k or k in ("<ptr>", "<fnptr>", "<dyn>")]
    if bad:
        for k, v in bad:
            ctx.violation("c05.modeltypes", "c05.modeltypes|%s" % k, "Model type closure contains %s at %s (serialisation order / value unstable)" % (k, v[:3]), None)
    else:
        ctx.ok("c05.modeltypes", "c05.modeltypes|closure", "no HashMap/HashSet/pointer/fn types among %d fields of %d model types" % (len(fields), len(wseen)), None)

    # D3 uuid arguments
    nsites = check_uuid_sites(ctx, prog)
    ctx.floor("c05.idprov", "id-function call sites", nsites, 14)

    # D4 statics
    statics = [f for f in prog.fns.values() if f.kind == "static"]
    imm = [f for f in statics if not f.raw.get("freeze", True) or f.raw.get("static_mut")]
    names = sorted(f.path for f in imm)
    want = ["bemodel::climatedata::hourlyraddata::JULYRADDATA", "bemodel::climatedata::monthlyraddata::MONTHLYRADDATA", "bemodel::climatedata::zonesmeta::CLIMATEMETADATA"]
    for f in imm:
        if f.raw.get("static_mut"):
            ctx.violation("c05.statics", "c05.statics|%s" % f.path, "static mut", f.loc())
        elif f.path in want and "Lazy<std::sync::Mutex<" in f.raw.get("static_ty", "").replace("once_cell::sync::", ""):
            ctx.ok("c05.statics", "c05.statics|%s" % f.path, "Lazy<Mutex<..>> table", f.loc())
        elif f.crate in ("bemodel", "hulc", "climate", "hulc2model") and f.target_kind == "lib":
            ctx.violation("c05.statics", "c05.statics|%s" % f.path, "interior-mutable static %s: shared mutable state can make results history-dependent" % f.raw.get("static_ty"), f.loc())
    ctx.floor("c05.statics", "interior-mutable statics found", len([f for f in imm if f.path in want]), 3)
    # guards never mutably dereferenced; lock sites
    locks = lock_sites(ctx, prog)
    ctx.floor("c05.locks", "lock sites", len(locks), 3)
    # unsafe
    libunsafe = [u for u in prog.unsafe]
    if libunsafe:
        for u in libunsafe:
            ctx.violation("c05.unsafe", "c05.unsafe|%s" % u["span"][0], "unsafe block", "%s:%s" % (u["span"][0], u["span"][1]))
    else:
        ctx.ok("c05.unsafe", "c05.unsafe|none", "no user unsafe block in any analysed target", None)
    uimpl = [i for i in prog.impls if i.get("unsafe") and not i.get("derived")]
    for i in uimpl:
        ctx.violation("c05.unsafe", "c05.unsafe|impl|%s" % i["self"], "unsafe impl %s for %s" % (i["trait"], i["self"]), "%s:%s" % (i["span"][0], i["span"][1]))


def id_functions(prog):
    """ids of the workspace functions that compute an id from their arguments: plain functions returning uuid::Uuid
    (uuid_from_obj, uuid_from_str and whatever joins or replaces them)"""
    return {f.id for f in prog.fns.values() if f.kind in ("fn", "assocfn") and re.search(r"(^|::)Uuid$", f.raw.get("ret") or "") and not f.raw.get("impl_derived")
            and f.raw.get("inputs")}


def check_uuid_sites(ctx, prog, only_prefix=None, rule="c05.idprov"):
    n = 0
    idf = id_functions(prog)
    from ..mir import callee_id
    for fn in sorted(prog.fns.values(), key=lambda f: f.id):
        if fn.root != fn.id:
            continue
        if only_prefix and not fn.path.startswith(only_prefix):
            continue
        has = any(callee_id(t) in idf for sc in [fn] + prog.closures_of(fn) for _, t in sc.body.calls())
        if not has:
            continue
        root = Scope(prog, fn)
        for sc in root.all_scopes():
            cnt = {}
            for b, t in sc.body.calls():
                nm = callee_name(t) or ""
                last = nm.split("::")[-1]
                if callee_id(t) not in idf or sc.fn.id in idf or prog.root_of(sc.fn).id in idf:
                    continue
                n += 1
                arg = sc.operand(t["args"][0]) if len(t["args"]) == 1 else ("agg", "tuple", tuple(str(i) for i in range(len(t["args"]))), tuple(sc.operand(a) for a in t["args"]))
                disp = prog.display(sc.fn)
                k = cnt.get(last, 0)
                cnt[last] = k + 1
                desc = describe(arg)
                key = "%s|%s|%s|%s" % (rule, disp, last, desc)
                if any(i.key == key for i in ctx.instances):
                    key += "|%d" % k
                taint = id_taints(sc, arg)
                # type hashed
                c = callee_of(t)
                tys = c.get("g", [])
                tprob = [x for x in tys if "HashMap" in x or "HashSet" in x or "*const" in x or "*mut" in x or "fn(" in x]
                for a in c.get("gadt", []):
                    if a in prog.adts:
                        ws, ext, _ = T.closure(prog, [a])
                        tprob += [k2 for k2 in ext if "HashMap" in k2 or "HashSet" in k2 or k2 in ("<ptr>", "<fnptr>")]
                if taint or tprob:
                    ctx.violation(rule, key, "id input depends on %s" % ", ".join(taint + ["unstable Debug of %s" % x for x in tprob]), sc.fn.loc(t.get("ln")))
                else:
                    ctx.ok(rule, key, "id = hash(%s)" % desc, sc.fn.loc(t.get("ln")))
    return n


def describe(arg):
    leaves = sorted({leaf_name(x) for x in walk(arg) if x[0] in ("elem", "proj", "arg", "var", "upvar", "named") and leaf_name(x)})
    # keep maximal names only
    keep = [l for l in leaves if not any(o != l and o.startswith(l) for o in leaves)]
    return ",".join(keep)[:120] or show(arg)[:60]


def id_taints(sc, arg):
    out = []
    for x in walk(arg):
        if x[0] == "proj" and x[1][0] == "elem" and "enumerate" in x[1][2] and x[2] and x[2][0] == ".0":
            out.append("an enumerate() index")
        if x[0] == "call" and short_callee(x[1]) in ("len", "count", "position"):
            out.append("a collection length/position (`%s`)" % short_callee(x[1]))
        if x[0] == "call" and NONDET.search(x[1]):
            out.append("nondeterminism source %s" % short_callee(x[1]))
        if x[0] == "kx" and dict(x[1]).get("static"):
            out.append("static %s" % dict(x[1]).get("static"))
        if x[0] == "var":
            body = sc.body
            # a list that is being built while the ids are computed: the id then depends on what was converted before this element
            for b_, t_ in body.calls():
                if short_callee(callee_name(t_) or "") in ("push", "insert", "extend", "push_str", "push_back", "append", "extend_from_slice") and t_["args"]:
                    r_ = strip(sc.eb.operand(t_["args"][0]))
                    if r_[0] == "var" and r_[1] == x[1]:
                        out.append("the list `%s` that is being filled in the same loop (the elements converted before this one)" % x[2])
            # loop-carried counter: a definition of the form var = var +/- c
            for d in body.defs().get(x[1], []):
                if d[0] == "st":
                    rv = d[3]["rv"]
                    if rv["r"] == "bin" and rv["op"].startswith(("Add", "Sub")):
                        from ..mir import op_place
                        pa = op_place(rv["a"])
                        if pa is not None and pl_local(pa) == x[1]:
                            out.append("a loop counter `%s`" % x[2])
                    if rv["r"] == "use":
                        from ..mir import op_place
                        pa = op_place(rv["a"])
                        if pa is not None and not isinstance(pa, int) and pa["p"] == [".0"]:
                            src = body.defs().get(pa["l"], [])
                            for sd in src:
                                if sd[0] == "st" and sd[3]["rv"]["r"] == "bin" and "WithOverflow" in sd[3]["rv"]["op"]:
                                    pa2 = op_place(sd[3]["rv"]["a"])
                                    if pa2 is not None and pl_local(pa2) == x[1]:
                                        out.append("a loop counter `%s`" % x[2])
    return sorted(set(out))


def lock_sites(ctx, prog):
    """Mutex::lock call sites on statics; guards must not be mutably dereferenced; no nested acquisition"""
    sites = []
    for fn in sorted(prog.fns.values(), key=lambda f: f.id):
        body = fn.body
        for b, t in body.calls():
            nm = callee_name(t) or ""
            if short_callee(nm) == "try_lock" and ("sync::Mutex" in nm or "sync::RwLock" in nm or "sync::poison::mutex::Mutex" in nm or "Mutex" in nm):
                ctx.violation("c05.trylock", "c05.trylock|%s" % prog.display(fn), "try_lock on a shared table: whether it succeeds depends on what other threads are doing, so the result of "
                              "this computation is not the same in every schedule", fn.loc(t.get("ln")))
            if nm.endswith("Mutex::<T>::lock") or nm.endswith("Mutex<T>::lock") or "sync::Mutex" in nm and short_callee(nm) in ("lock", "try_lock"):
                sites.append((fn, b, t))
            if short_callee(nm) == "deref_mut" and "MutexGuard" in nm:
                ctx.violation("c05.guardmut", "c05.guardmut|%s" % prog.display(fn), "a lock guard of a shared table is mutably dereferenced (table modified after initialisation)", fn.loc(t.get("ln")))
            if short_callee(nm) in ("get_mut", "into_inner", "force_mut") and ("sync::Mutex" in nm or "Lazy" in nm):
                ctx.violation("c05.guardmut", "c05.guardmut|%s|%s" % (prog.display(fn), short_callee(nm)), "mutable access to a shared table", fn.loc(t.get("ln")))
    from ..locks import regions
    regs = regions(ctx, prog, sites)
    for r in regs:
        key = "c05.locks|%s|%s" % (prog.display(r["fn"]), r["static"])
        if r["nested"]:
            ctx.violation("c05.locks", key, "acquires %s while holding %s (lock-order edge; potential deadlock)" % (r["nested"], r["static"]), r["loc"])
        else:
            ctx.ok("c05.locks", key, "lock region of %s: %d blocks, no other lock acquired inside (%s)" % (r["static"], len(r["blocks"]), "statement temporary" if r["temporary"] else "held to end of scope"), r["loc"])
    return sites


def run_fixture(ctx):
    prog = ctx.prog
    root = prog.fn_by_path("poscontrol::c05_root")
    seen = ctx.cg.reachable([root.id])
    scan_nondet(ctx, prog, seen)
    for (fn, t, nm, sc) in hash_sites(ctx, prog, seen):
        if sc in ORDER_SENSITIVE or sc not in ORDER_FREE:
            ctx.violation("c05.hashorder", "fixture|%s" % sc, "order-dependent", fn.loc(t.get("ln")))
    import ctecheck.rules.c05 as me
    check_uuid_sites(ctx, prog, only_prefix="poscontrol::c05")
