"""C06 - Opaque U-values follow EN ISO 6946, 13370 and 13789 (leaf formulas, tables, None propagation, dispatch)."""
import itertools
import re

from ..cfgq import Scope, returned_nodes, bool_taken
from ..exprs import is_arith_op, strip, short_callee, show, leaf_name, walk, origin_desc
from ..facts import AnalysisError
from ..formulas import LeafMap, compare, unwrap_some, fallback_chain, defs_of, cond_text, FNormalizer
from ..mir import callee_name
from .. import tables as TB

ID = "C06"
LEVEL = "translation_validation"
RULE_TEXT = ("surface-resistance decision tables evaluated on every combination of their finite-domain atoms by walking the CFG; leaf formulas read as def-use "
             "trees, normalised to rational functions with function symbols and compared with the standards' formulas; None-propagation and dispatch obligations")
EXPLANATION = ("D1 Rsi tables (exterior by tilt; partitions by conditioning x tilt; 18 rows) and Rse; D2 formulas of u_value_exterior, u_value_interior_cond_uncond, "
               "u_value_gnd_slab, u_value_gnd_wall, slab_psi_gnd_ext, slab_d_t, slab_char_dim, WallCons::resistance, fround2/3; D3 no construction/material => no U; "
               "D4 dispatch by boundary kind and tilt, ventilation precedence; D5 burial depth z = max(-space.z, 0)")
DECIDED = ["D1 surface-resistance tables", "D2 leaf formulas", "D3 missing construction or material => None", "D4 dispatch and ventilation precedence", "D5 burial depth",
           "D5 the building-wide ventilation rate used for partitions is 3.6 l/s over the net volume of the habitable spaces inside the envelope",
           "D6 no rounded value enters further arithmetic (rounding once, at the end); the other side of an element of Space::walls is chosen by who declares it",
           "D7 H_ue of an unconditioned space adds net opaque area x U (openings not counted twice)"]
UNDECIDED = ["two-decimal agreement of the assembled value on real models (aggregation over surfaces, characteristic dimension from geometry)",
             "monotonicity in layers (a sign argument over runtime values)"]
ASSUMPTIONS = ["reference formulas transcribed from EN ISO 6946 / 13370 / 13789 as named in the statement"]
LEVEL_TEXT = ("Translation validation of tables and leaf formulas: each surface-resistance table is evaluated for every combination of (conditioning, conditioning, tilt) "
              "by a finite walk of the decision CFG, and each leaf function's expression is normalised (exact rationals, function symbols for ln/min/max/round) and "
              "compared with the standard's formula; `?`-propagation shows that a missing construction or material yields no U-value. Decides these for all inputs; the "
              "assembled two-decimal value on real models and monotonicity are not decided.")
LEVEL_NOTE = "Trusted: rustc MIR; the transcription of the standards' formulas in this rule file; f32 rounding is outside the comparison."
TECHNIQUE = "finite truth-table evaluation over the decision CFG + normalised rational-function comparison of def-use expression trees"
FIXTURE_EXPECT = ["c06.formula"]

RSI = {"BOTTOM": "0.17", "TOP": "0.1", "SIDE": "0.13"}
TILTS = ["BOTTOM", "TOP", "SIDE"]


def rsi_of(node):
    """(coefficient, rsi constant) of a node of the form  X + c * RSI  /  X + RSI"""
    consts = [x for x in walk(node) if x[0] == "k" and x[3] and "RSI_" in x[3]]
    mult = None
    for x in walk(node):
        if x[0] == "bin" and x[1] == "Mul":
            a, b = strip(x[2]), strip(x[3])
            if a[0] == "k" and b[0] == "k" and (b[3] or "").find("RSI_") >= 0:
                mult = a[1]
            if b[0] == "k" and a[0] == "k" and (a[3] or "").find("RSI_") >= 0:
                mult = b[1]
    if len(consts) != 1:
        return None, None
    return mult or "1.0", consts[0][1]


def tilt_atom(variants):
    def f(n, val):
        # discr(Tilt::from(self)) or a local holding it
        if n[0] == "discr":
            d = origin_desc(strip(n[1]))
            if d in ("self", "tilt", "Tilt::from(self)") or d.endswith("from(self)"):
                return str(variants.index(val))
        return None
    return f


def local_defs(sc, name):
    """definitions of each distinct local called `name`: {local: [(block, node, line)]}"""
    body = sc.body
    out = {}
    for l, nm in sorted(body.names.items()):
        if nm != name:
            continue
        for d in body.defs().get(l, []):
            if d[0] == "st" and isinstance(d[3]["p"], int):
                out.setdefault(l, []).append((d[1], strip(sc.rvalue(d[3]["rv"])), d[3].get("ln")))
            elif d[0] == "call" and isinstance(d[2]["dest"], int):
                out.setdefault(l, []).append((d[1], strip(sc._rw(sc.eb.call_node(d[2], d[1]))), d[2].get("ln")))
    return out


def check_intermediate_rounding(ctx, prog, rule="c06.rounding"):
    """"equals to two decimals the value the standards define": rounding belongs at the end.  A value that was rounded to two decimals and then enters further
    arithmetic (U_w rounded before d_w = lambda/U_w, U_bw rounded before the height-weighted mean) carries an error of up to 0.005 into a formula that can amplify it
    past 0.01.  Every fround2/fround3 result - also the result of a function of this module that returns a rounded value - that is an operand of arithmetic in the
    U-value functions is a site."""
    from ..mir import callee_name
    mod_fns = [f for f in prog.fns.values() if f.path.startswith("bemodel::energy::transmittance::") and f.root == f.id and not f.raw.get("impl_derived")]
    # functions whose returned values are all rounded (Some(fround2(..)) / fround2(..))
    def rounded_fn(f):
        rns = returned_nodes(f.body)
        sc = Scope(prog, f)
        vals = []
        for _, rn in rns:
            n = strip(sc._rw(rn))
            if n[0] == "agg" and n[1].split("::")[-1] in ("Some", "Ok") and n[3]:
                n = strip(n[3][0])
            if n[0] == "agg" and n[1].split("::")[-1] == "None":
                continue
            if n[0] == "call" and short_callee(n[1]) == "from_residual":
                continue
            vals.append(n)
        return bool(vals) and all(v[0] == "call" and short_callee(v[1]) in ("fround2", "fround3") for v in vals)
    rounded = {f.path for f in mod_fns if rounded_fn(f)}
    ARITH = ("Add", "Sub", "Mul", "Div")
    sites = {}

    def is_rounded(n):
        # `x?` / `.unwrap()` of a rounded Option is the rounded value
        while (n[0] == "proj" and strip(n[1])[0] == "call" and short_callee(strip(n[1])[1]) == "branch" and strip(n[1])[2]) or \
                (n[0] == "call" and short_callee(n[1]) in ("unwrap", "expect", "unwrap_or_default") and n[2]):
            n = strip(strip(n[1])[2][0]) if n[0] == "proj" else strip(n[2][0])
        if n[0] != "call":
            return None
        if short_callee(n[1]) in ("fround2", "fround3"):
            return "fround"
        ids = prog.callee_index().get(n[1], ())
        if len(ids) == 1 and prog.fns[next(iter(ids))].path in rounded:
            return "call"
        return None

    # named locals that hold a rounded value, and parameters that receive one at some call site
    rlocals, rparams = {}, {}
    for f in mod_fns:
        sc_ = Scope(prog, f)
        rl = set()
        for l_, ds in f.body.defs().items():
            if l_ not in f.body.names:
                continue
            for d in ds:
                try:
                    v_ = strip(sc_.rvalue(d[3]["rv"])) if d[0] == "st" else strip(sc_._rw(sc_.eb.call_node(d[2], d[1])))
                except Exception:
                    continue
                if v_[0] == "proj" and strip(v_[1])[0] == "call" and short_callee(strip(v_[1])[1]) == "branch" and strip(v_[1])[2]:
                    v_ = strip(strip(v_[1])[2][0])          # `x?` of a rounded Option
                if is_rounded(v_):
                    rl.add(l_)
        rlocals[f.id] = rl
    from ..mir import callee_id
    for f in mod_fns:
        sc_ = Scope(prog, f)
        for b_, t_ in f.body.calls():
            cid = callee_id(t_)
            if cid in {g.id for g in mod_fns}:
                for i_, a_ in enumerate(t_["args"]):
                    raw = strip(sc_.eb.operand(a_))
                    v_ = strip(sc_.operand(a_))
                    if is_rounded(v_) or (raw[0] == "var" and raw[1] in rlocals[f.id]):
                        rparams.setdefault(cid, set()).add(i_ + 1)

    def visit(f, n, under_arith, depth=0):
        n = strip(n)
        if depth > 40:
            return
        k = n[0]
        if under_arith and ((k == "var" and n[1] in rlocals.get(f.id, ())) or (k == "arg" and n[1] in rparams.get(f.id, ()))):
            sites.setdefault((f.path.split("::")[-1], "%s (rounded %s)" % (n[2], "local" if k == "var" else "argument")), f.loc())
        r = is_rounded(n)
        if r and under_arith:
            desc = (short_callee(n[1]) + "(" + origin_desc(strip(n[2][0]))[:50] + ")") if n[2] else short_callee(n[1])
            sites.setdefault((f.path.split("::")[-1], desc), f.loc())
        if k == "bin":
            ua = under_arith or any(n[1].startswith(a) for a in ARITH)
            visit(f, n[2], ua, depth + 1)
            visit(f, n[3], ua, depth + 1)
        elif k == "un":
            visit(f, n[2], under_arith, depth + 1)
        elif k == "cast":
            visit(f, n[1], under_arith, depth + 1)
        elif k == "proj":
            visit(f, n[1], under_arith, depth + 1)
        elif k == "call":
            nm = short_callee(n[1])
            # the argument of the outermost rounding is not "under arithmetic" because of the rounding itself; arguments of numeric functions are
            ua = under_arith or nm in ("min", "max", "ln", "powf", "sqrt", "exp", "mul_add")
            for a in n[2]:
                visit(f, a, False if r == "fround" and not under_arith else ua, depth + 1)
        elif k == "agg":
            for a in n[3]:
                visit(f, a, under_arith, depth + 1)
    for f in sorted(mod_fns, key=lambda f: f.id):
        if not any(x in f.path for x in ("u_value", "slab_", "resistance", "ua_of")):
            continue
        sc = Scope(prog, f)
        for _, rn in returned_nodes(f.body):
            visit(f, sc._rw(rn), False)
        for b, i, st in f.body.statements():
            if st["s"] == "assign" and st["rv"]["r"] == "bin" and any(st["rv"]["op"].startswith(a) for a in ARITH):
                try:
                    visit(f, sc.rvalue(st["rv"]), False)
                except Exception:
                    pass
    ctx.floor(rule, "U-value functions that return rounded values", len(rounded), 4)
    from ..spec.triage import C06_ROUNDING_EXCEPTIONS
    for (fname, desc), loc in sorted(sites.items()):
        if "%s|%s|%s" % (rule, fname, desc) in C06_ROUNDING_EXCEPTIONS:
            ctx.exception(rule, "%s|%s|%s" % (rule, fname, desc), C06_ROUNDING_EXCEPTIONS["%s|%s|%s" % (rule, fname, desc)], loc)
            continue
        ctx.violation(rule, "%s|%s|%s" % (rule, fname, desc), "in %s the value %s has already been rounded to two decimals when it enters further arithmetic: the rounding error (up to "
                      "0.005) is carried through the rest of the formula, and the final two-decimal value can differ from the standard's by more than 0.01" % (fname, desc), loc)
    if not sites:
        ctx.ok(rule, rule + "|none", "no rounded value enters further arithmetic in the U-value functions (rounding happens once, at the end)", None)


def check_neighbour_of_own_walls(ctx, prog, rule="c06.dispatch"):
    """`Space::walls` yields the elements a space is bounded by, whether they are declared from this space (`w.space == self.id`, the other space is
    `w.next_to`) or from the other one (`w.next_to == self.id`, the other space is `w.space`).  Code that walks over them and asks what lies on the other
    side must look at `w.space` too: taking `w.next_to` for every element looks the space itself up for the elements declared from the other side."""
    n = 0
    for f in sorted(prog.fns.values(), key=lambda f: f.id):
        if f.crate != "bemodel" or f.root != f.id or f.raw.get("impl_derived") or "Space" not in f.path:
            continue
        if not any((callee_name(t) or "").endswith("Space::walls") for _, t in f.body.calls()):
            continue
        root = Scope(prog, f)
        for sc in root.all_scopes():
            if sc.fn.id == f.id:
                continue
            elem = getattr(sc, "elem", None)
            txt_elem = show(elem) if elem is not None else ""
            if "walls(" not in txt_elem and "Space::walls" not in txt_elem:
                continue
            reads_next = reads_space = False
            for bb in range(sc.body.n):
                for st in sc.body.blocks[bb]["st"]:
                    if st["s"] != "assign":
                        continue
                    try:
                        v = sc.rvalue(st["rv"])
                    except Exception:
                        continue
                    for x in walk(v):
                        ln_ = leaf_name(x) if x[0] in ("proj",) else None
                        if ln_ and ln_.endswith(".next_to") and "walls" in ln_:
                            reads_next = True
                        if ln_ and ln_.endswith(".space") and "walls" in ln_:
                            reads_space = True
                t = sc.body.blocks[bb]["term"]
                if t["t"] == "call":
                    for a in t["args"]:
                        for x in walk(sc.operand(a)):
                            ln_ = leaf_name(x) if x[0] in ("proj",) else None
                            if ln_ and ln_.endswith(".next_to") and "walls" in ln_:
                                reads_next = True
                            if ln_ and ln_.endswith(".space") and "walls" in ln_:
                                reads_space = True
            if not reads_next:
                continue
            n += 1
            key = "%s|other-side|%s" % (rule, f.path.split("::")[-1])
            if any(i.key == key for i in ctx.instances):
                continue
            if reads_space:
                ctx.ok(rule, key, "the other side of an element of Space::walls is chosen by looking at which space declares it", sc.fn.loc())
            else:
                ctx.violation(rule, key, "%s takes `next_to` as the other side of every element Space::walls yields, without looking at which space declares the element: for a "
                              "partition declared from the neighbouring space (`next_to` = this space) the space looked up is the space itself, so a contact with an "
                              "unconditioned space is not seen (exposed perimeter of the slab too short)" % f.path.split("::")[-1], sc.fn.loc())
    ctx.floor(rule, "walks over Space::walls that ask for the other side", n, 1)


def check_ua_of_unconditioned_space(ctx, prog, rule="c06.term"):
    """EN ISO 6946 5.4.3 / EN ISO 13789: H_ue of an unconditioned space is the sum over its exterior and ground elements of (net opaque area x U) plus the
    (area x U) of the windows in them.  The opaque term has to use the net area: with the gross area every opening is counted twice."""
    from ..cfgq import iter_chain, closure_id_of, closure_env
    f = prog.method("types::space::Space", None, "ua_of_external_and_ground_surfaces")
    sc = Scope(prog, f)
    rn = returned_nodes(f.body)
    if len(rn) != 1:
        raise AnalysisError("ua_of_external_and_ground_surfaces: single return expected")
    n = strip(sc._rw(rn[0][1]))
    if not (n[0] == "call" and short_callee(n[1]) == "sum"):
        raise AnalysisError("ua_of_external_and_ground_surfaces: not a sum over the space's elements (%s)" % show(n)[:60])
    ch = iter_chain(strip(n[2][0]))
    fm = [c for (a, c) in ch.steps if a in ("filter_map", "map")]
    if len(fm) != 1:
        raise AnalysisError("ua_of_external_and_ground_surfaces: one map/filter_map step expected")
    clo = strip(fm[0])
    cf = prog.fns[closure_id_of(clo)]
    csc = Scope(prog, cf, closure_env(clo), ("elem", "W", ()), sc)
    terms = []
    for b, x in returned_nodes(cf.body):
        v = strip(csc._rw(x))
        if v[0] == "agg" and v[1].split("::")[-1].startswith("Some") and v[3]:
            terms.append(strip(v[3][0]))
        elif v[0] == "bin":
            terms.append(v)
    if len(terms) != 1:
        raise AnalysisError("ua_of_external_and_ground_surfaces: the per-element term was not found (%d candidates)" % len(terms))
    t = terms[0]
    key = rule + "|ua_of_external_and_ground_surfaces|opaque-area"
    txt = show(t)
    areas = [x for x in walk(t) if x[0] == "call" and short_callee(x[1]) in ("area", "area_net", "area_gross") and "W[]" in show(x) and "windows(" not in show(x).split("(")[0]]
    wall_areas = [x for x in areas if strip(x[2][0]) == ("elem", "W", ()) or show(strip(x[2][0])) == "W[]"]
    if not wall_areas:
        raise AnalysisError("ua_of_external_and_ground_surfaces: no area of the element in its term (%s)" % txt[:80])
    if all(short_callee(x[1]) == "area_net" for x in wall_areas) and "u_value(W[]" in txt:
        ctx.ok(rule, key, "each exterior or ground element adds net area x U (plus area x U of its windows)", f.loc())
    else:
        ctx.violation(rule, key, "the opaque part of an element enters H_ue with %s instead of its net area: the openings are counted twice (once as wall, once as window), "
                      "so U of the partition to the unconditioned space comes out too high" % "/".join(sorted({short_callee(x[1]) + "()" for x in wall_areas})), f.loc())


def run(ctx):
    prog = ctx.prog
    check_intermediate_rounding(ctx, prog)
    check_neighbour_of_own_walls(ctx, prog)
    check_ua_of_unconditioned_space(ctx, prog)
    tilt_variants = [v["name"] for v in prog.adt("bemodel::types::common::Tilt")["variants"]]
    ctx.require(tilt_variants == TILTS, "Tilt variants changed: %s" % tilt_variants)
    nrows = 0
    # ---------------- u_value_exterior: table + formula
    ue = prog.method("types::opaques::Wall", None, "u_value_exterior")
    sc = Scope(prog, ue)
    ld = local_defs(sc, "rsi")
    ctx.require(len(ld) == 1, "u_value_exterior: variable rsi not found")
    l, defs = next(iter(ld.items()))
    blocks = {b: n for b, n, ln in defs}
    start = TB.common_dominator(ue.body, list(blocks))
    for tv in TILTS:
        nrows += 1
        key = "c06.table|exterior|%s" % tv
        r = TB.walk_decision(sc, start, lambda n: tilt_atom(TILTS)(n, tv), set(blocks))
        if not isinstance(r, int):
            raise AnalysisError("u_value_exterior: cannot resolve Rsi for tilt %s (%s)" % (tv, r))
        got = blocks[r]
        if got[0] != "k":
            # the resistance may come through helpers that map the tilt class to a heat-flow direction and that to a constant
            got = strip(TB.resolve_helpers(prog, got, lambda n_, tv=tv: tilt_atom(TILTS)(strip(n_), tv)))
        val = got[1] if got[0] == "k" else None
        if val is not None and float(val) == float(RSI[tv]):
            ctx.ok("c06.table", key, "Rsi(%s) = %s" % (tv, val), ue.loc())
        else:
            ctx.violation("c06.table", key, "exterior element with tilt class %s uses Rsi = %s, EN ISO 6946 gives %s" % (tv, show(got)[:30], RSI[tv]), ue.loc())
    rns = [unwrap_some(sc._rw(rn)) for _, rn in returned_nodes(ue.body) if strip(sc._rw(rn))[0] == "agg"]
    ctx.require(len(rns) == 1, "u_value_exterior: expected one Some(..) return")
    lm = LeafMap({"rsi": "Rsi"}, [(r"^resistance\?$", "R")])
    # the surface resistance is whatever the table rule above has just decided (a local `rsi`, or the helper expression it is defined by)
    rsi_nodes = [(strip(n_), "Rsi") for n_ in blocks.values() if strip(n_)[0] == "call"]
    compare(ctx, "c06.formula", "c06.formula|u_value_exterior", rns[0], "r2(1 / (R + Rsi + 0.04))", lm, None, ue.loc(), "U (air contact)", nodemap=rsi_nodes)
    others = [strip(sc._rw(rn)) for _, rn in returned_nodes(ue.body) if strip(sc._rw(rn))[0] != "agg"]
    if len(others) == 1 and "from_residual" in show(others[0]) and "resistance" in show(others[0]):
        ctx.ok("c06.none", "c06.none|u_value_exterior", "returns None when the resistance is None (`resistance?`)", ue.loc())
    else:
        ctx.violation("c06.none", "c06.none|u_value_exterior", "u_value_exterior no longer returns None for a missing resistance: %s" % [show(o)[:60] for o in others], ue.loc())

    # ---------------- Wall::u_value: partitions
    uv = prog.method("types::opaques::Wall", None, "u_value")
    usc = Scope(prog, uv)
    rf = local_defs(usc, "R_f")
    ctx.require(len(rf) == 2, "Wall::u_value: expected two R_f bindings, found %d" % len(rf))
    rf_items = sorted(rf.items(), key=lambda kv: min(ln or 0 for _, _, ln in kv[1]))
    # (a) no neighbour
    l0, defs0 = rf_items[0]
    blocks0 = {b: n for b, n, ln in defs0}
    start0 = TB.common_dominator(uv.body, list(blocks0))
    for tv in TILTS:
        nrows += 1
        key = "c06.table|partition-no-neighbour|%s" % tv
        r = TB.walk_decision(usc, start0, lambda n: tilt_atom(TILTS)(n, tv), set(blocks0))
        if not isinstance(r, int):
            raise AnalysisError("Wall::u_value: cannot resolve R_f (no neighbour) for tilt %s (%s)" % (tv, r))
        mult, val = rsi_of(blocks0[r])
        if val is not None and float(val) == float(RSI[tv]) and float(mult) == 2.0 and "resistance" in show(blocks0[r]):
            ctx.ok("c06.table", key, "R_f = R + 2 x %s" % val, uv.loc())
        else:
            ctx.violation("c06.table", key, "partition without neighbour, tilt %s: R_f = %s, expected R + 2 x %s" % (tv, show(blocks0[r])[-40:], RSI[tv]), uv.loc())
    # (b) with neighbour: 12 combinations
    l1, defs1 = rf_items[1]
    blocks1 = {b: n for b, n, ln in defs1}
    start1 = TB.common_dominator(uv.body, list(blocks1))

    def expected(tc, nc, tv):
        if (tc, nc, tv) in ((True, False, "BOTTOM"), (False, True, "TOP")):
            return RSI["BOTTOM"]
        if (tc, nc, tv) in ((True, False, "TOP"), (False, True, "BOTTOM")):
            return RSI["TOP"]
        return RSI["SIDE"]
    for tc, nc, tv in itertools.product((True, False), (True, False), TILTS):
        nrows += 1

        def in_interior_arm(x):
            # this table is the INTERIOR arm of the dispatch: helpers that look at the wall's own boundary type are resolved with it
            x = strip(x)
            if x[0] == "call" and short_callee(x[1]) in ("eq", "ne") and len(x[2]) == 2:
                for a_, b_ in ((strip(x[2][0]), strip(x[2][1])), (strip(x[2][1]), strip(x[2][0]))):
                    if (leaf_name(a_) or "").endswith(".bounds") and b_[0] == "agg" and "::" in b_[1]:
                        r_ = (b_[1].split("::")[-1] == "INTERIOR") == (short_callee(x[1]) == "eq")
                        return "1" if r_ else "0"
            if x[0] == "discr" and (leaf_name(strip(x[1])) or "").endswith(".bounds"):
                bts = [v["name"] for v in prog.adt("bemodel::types::common::BoundaryType")["variants"]]
                return str(bts.index("INTERIOR"))
            return None

        def atom(n, tc=tc, nc=nc, tv=tv):
            n = strip(TB.resolve_helpers(prog, strip(n), in_interior_arm))
            t = tilt_atom(TILTS)(n, tv)
            if t is not None:
                return t
            d = origin_desc(n)
            if n[0] == "call" and short_callee(n[1]) == "eq" and "CONDITIONED" in d:
                if "self.next_to" in d:
                    return "1" if nc else "0"
                if "self.space" in d:
                    return "1" if tc else "0"
            return None
        key = "c06.table|partition|this=%s,next=%s,%s" % ("cond" if tc else "uncond", "cond" if nc else "uncond", tv)
        r = TB.walk_decision(usc, start1, atom, set(blocks1))
        if not isinstance(r, int):
            raise AnalysisError("Wall::u_value: cannot resolve R_f for %s (%s)" % (key, str(r)[:200]))
        mult, val = rsi_of(blocks1[r])
        want = expected(tc, nc, tv)
        if val is not None and float(val) == float(want) and float(mult) == 2.0 and "resistance" in show(blocks1[r]):
            ctx.ok("c06.table", key, "R_f = R + 2 x %s" % val, uv.loc())
        else:
            ctx.violation("c06.table", key, "R_f = %s, EN ISO 13789 Table 8 direction of heat flow gives R + 2 x %s" % (show(blocks1[r])[-40:], want), uv.loc())
    ctx.floor("c06.table", "surface resistance table rows", nrows, 18)
    # equal-conditioning U = r2(1/R_f) (two sites: no neighbour and equal conditioning)
    ul = local_defs(usc, "U")
    nU = 0
    for l, defs in sorted(ul.items()):
        for b, n, ln in defs:
            nU += 1
            lmU = LeafMap({"R_f": "Rf"})
            compare(ctx, "c06.formula", "c06.formula|partition-equal|%d" % nU, n, "r2(1 / Rf)", lmU, None, uv.loc(ln), "U (partition, equal conditioning)")
    ctx.require(nU == 2, "Wall::u_value: expected two `let U = fround2(1.0 / R_f)` sites, found %d" % nU)

    # ---------------- leaf formulas
    f = prog.method("types::opaques::Wall", None, "u_value_interior_cond_uncond")
    s2 = Scope(prog, f)
    rns = [unwrap_some(s2._rw(rn)) for _, rn in returned_nodes(f.body)]
    ctx.require(len(rns) == 1, "u_value_interior_cond_uncond: one return expected")
    # U is an immutable local: inlined
    compare(ctx, "c06.formula", "c06.formula|u_value_interior_cond_uncond", rns[0], "r2(1 / (Rf + Ai / (UA + 0.33 * q)))",
            LeafMap({"R_f": "Rf", "A_i": "Ai", "UA_e_k": "UA", "q_ue": "q"}), None, f.loc(), "U (conditioned/unconditioned partition)")

    f = prog.method("types::opaques::Wall", None, "u_value_gnd_slab")
    s3 = Scope(prog, f)
    lmS = LeafMap({"z": "z", "d_t": "dt", "char_dim": "B", "psi_gnd_ext": "psi", "U_bf": "Ubf"})
    ubf = local_defs(s3, "U_bf")
    ctx.require(len(ubf) == 1 and len(next(iter(ubf.values()))) == 2, "u_value_gnd_slab: U_bf must have two branch definitions")
    for b, n, ln in next(iter(ubf.values())):
        conds = [(strip(c), bool_taken(tk)) for (_, d, c, tk) in s3.conditions(b)]
        ctx.require(len(conds) == 1 and conds[0][0][0] == "bin" and conds[0][0][1] in ("Lt", "Le", "Gt", "Ge"), "u_value_gnd_slab: the branch is not a comparison of d_t + z/2 with B'")
        cn, cv = conds[0]
        nz = FNormalizer(lmS, {})
        xl, xr = nz.code(cn[2]), nz.code(cn[3])
        X, Bp = nz.ref("dt + 0.5*z"), nz.ref("B")
        if xl.equals(X) and xr.equals(Bp):
            below = cn[1] in ("Lt", "Le")         # condition true means d_t + z/2 below B'
        elif xl.equals(Bp) and xr.equals(X):
            below = cn[1] in ("Gt", "Ge")
        else:
            ctx.violation("c06.formula", "c06.formula|u_value_gnd_slab|branch", "the slab formulas are selected by `%s`, expected a comparison of d_t + z/2 with B'" % show(cn)[:80], f.loc(ln))
            continue
        # this definition applies where (d_t + z/2 < B') == cv
        cv = (cv == below)
        if cv:
            compare(ctx, "c06.formula", "c06.formula|u_value_gnd_slab|poorly-insulated", n, "2*2.0/(PI*B + (dt + 0.5*z)) * ln(1 + PI*B/(dt + 0.5*z))", lmS, None, f.loc(ln), "U_bf (d_t + z/2 < B')")
        else:
            compare(ctx, "c06.formula", "c06.formula|u_value_gnd_slab|well-insulated", n, "2.0/(0.457*B + (dt + 0.5*z))", lmS, None, f.loc(ln), "U_bf (d_t + z/2 >= B')")
    uu = local_defs(s3, "U")
    ctx.require(len(uu) == 1, "u_value_gnd_slab: U not found")
    b, n, ln = next(iter(uu.values()))[0]
    compare(ctx, "c06.formula", "c06.formula|u_value_gnd_slab|U", n, "r2(Ubf + 2*psi/B)", lmS, None, f.loc(ln), "U (slab on ground)")

    f = prog.method("types::opaques::Wall", None, "u_value_gnd_wall")
    s4 = Scope(prog, f)
    lmW = LeafMap({"z": "z", "U_w": "Uw", "d_t": "dt", "space_height_net": "H", "U_bw": "Ubw", "h": "h"})
    ubw = local_defs(s4, "U_bw")
    ctx.require(len(ubw) == 1, "u_value_gnd_wall: U_bw not found")
    done = 0
    for b, n, ln in next(iter(ubw.values())):
        if n[0] == "arg" or leaf_name(n) == "U_w":
            continue
        done += 1
        compare(ctx, "c06.formula", "c06.formula|u_value_gnd_wall|U_bw", n,
                "r2(2*2.0/(PI*z) * (1 + 0.5*min(2.0/Uw, dt)/(min(2.0/Uw, dt) + z)) * ln(z/(2.0/Uw) + 1))", lmW, None, f.loc(ln), "U_bw (buried wall)")
    ctx.require(done == 1, "u_value_gnd_wall: buried-wall definition of U_bw not found")
    hh = local_defs(s4, "h")
    for b, n, ln in next(iter(hh.values())):
        if n[0] == "k":
            continue
        compare(ctx, "c06.formula", "c06.formula|u_value_gnd_wall|h", n, "H - z", lmW, None, f.loc(ln), "height above ground")
    uu = local_defs(s4, "U")
    for b, n, ln in next(iter(uu.values())):
        if leaf_name(n) == "U_bw":
            continue
        compare(ctx, "c06.formula", "c06.formula|u_value_gnd_wall|U", n, "r2((z*Ubw + h*Uw)/H)", lmW, None, f.loc(ln), "U (partly buried wall, height-weighted)")

    f = prog.method("types::space::Space", None, "slab_psi_gnd_ext")
    s5 = Scope(prog, f)
    rns = [strip(s5._rw(rn)) for _, rn in returned_nodes(f.body)]
    ctx.require(len(rns) == 1, "slab_psi_gnd_ext: one return expected")
    compare(ctx, "c06.formula", "c06.formula|slab_psi_gnd_ext", rns[0], "r3(-2.0/PI * (ln(1 + D/dt) - ln(1 + D/(dt + Rn*(2.0 - 0.035)))))",
            LeafMap({"d_t": "dt", "model.meta.d_perim_insulation": "D", "model.meta.rn_perim_insulation": "Rn"}), None, f.loc(), "psi (perimeter insulation)")

    f = prog.method("types::space::Space", None, "slab_d_t")
    s6 = Scope(prog, f)
    # accumulators e_tot += a*(w + lambda*(Rsi + R + Rse)), a_total += a ; d_t = e_tot / a_total
    acc = accumulator_terms(s6, "e_tot")
    ctx.require(len(acc) == 1, "slab_d_t: e_tot must have exactly one accumulating update")
    lmD = LeafMap({}, [(r"area\(", "a"), (r"unwrap_or_default\(", "R")])
    compare(ctx, "c06.formula", "c06.formula|slab_d_t|e_tot", acc[0][0], "a * (0.3 + 2.0*(0.17 + R + 0.04))", lmD, None, f.loc(acc[0][1]), "equivalent thickness term")
    acc2 = accumulator_terms(s6, "a_total")
    ctx.require(len(acc2) == 1, "slab_d_t: a_total must have exactly one accumulating update")
    compare(ctx, "c06.formula", "c06.formula|slab_d_t|a_total", acc2[0][0], "a", lmD, None, f.loc(acc2[0][1]), "area accumulator")
    rns = [unwrap_some(s6._rw(rn)) for _, rn in returned_nodes(f.body) if strip(s6._rw(rn))[0] == "agg" and strip(s6._rw(rn))[1].endswith("Some")]
    ctx.require(len(rns) == 1, "slab_d_t: Some(..) return not found")
    compare(ctx, "c06.formula", "c06.formula|slab_d_t|d_t", rns[0], "e / a", LeafMap({"e_tot": "e", "a_total": "a"}), None, f.loc(), "d_t = sum / area")

    f = prog.method("types::space::Space", None, "slab_char_dim")
    s7 = Scope(prog, f)
    rns = [unwrap_some(s7._rw(rn)) for _, rn in returned_nodes(f.body) if strip(s7._rw(rn))[0] == "agg" and strip(s7._rw(rn))[1].endswith("Some")]
    rns = [r for r in rns if r[0] != "k"]
    ctx.require(len(rns) == 1, "slab_char_dim: final Some(..) return not found")
    lmC = LeafMap({"p": "p"}, [(r"area\(", "A")])
    compare(ctx, "c06.formula", "c06.formula|slab_char_dim", rns[0], "r2(A / (0.5 * max(p, 0.01)))", lmC, None, f.loc(), "B' = A / (P/2), P >= 0.01")

    # WallCons::resistance
    f = prog.method("types::constructions::WallCons", None, "resistance")
    s8 = Scope(prog, f)
    acc = accumulator_terms(s8, "total_resistance")
    ctx.require(len(acc) == 2, "WallCons::resistance: two accumulating updates expected (detailed / resistance), found %d" % len(acc))
    forms = []
    for (n, ln, b) in acc:
        d = origin_desc(n)
        if (n[0] == "bin" and n[1] == "Div") or (n[0] == "call" and short_callee(n[1]) == "div" and is_arith_op(n[1])):
            num, den = (origin_desc(strip(n[2])), origin_desc(strip(n[3]))) if n[0] == "bin" else (origin_desc(strip(n[2][0])), origin_desc(strip(n[2][1])))
            if num.endswith(".e") and den.endswith("conductivity"):
                # guard: conductivity > 0
                conds = [(strip(c), bool_taken(tk)) for (_, dd, c, tk) in s8.conditions(b)]
                guarded = any(c[0] == "bin" and c[1] == "Gt" and origin_desc(strip(c[2])).endswith("conductivity") and strip(c[3])[0] == "k" and float(strip(c[3])[1]) == 0.0 and v
                              for c, v in conds)
                forms.append("e/lambda" + ("" if guarded else " (unguarded)"))
                continue
        if d.endswith(".resistance") or d.endswith("resistance"):
            forms.append("R")
            continue
        forms.append("?" + d)
    if sorted(forms) == ["R", "e/lambda"]:
        ctx.ok("c06.formula", "c06.formula|WallCons::resistance", "R_total += e/lambda (lambda > 0) | += resistance", f.loc())
    else:
        ctx.violation("c06.formula", "c06.formula|WallCons::resistance", "layer contributions are %s, expected e/lambda under lambda > 0 and `resistance`" % forms, f.loc())
    # every layer contributes: the accumulation runs over self.layers itself (no layer is filtered out or skipped on the way)
    from ..loops import classify_loops
    from ..cfgq import inline_helper, iter_chain
    lps = [l for l in classify_loops(prog, f) if l.get("chain") is not None]
    ctx.require(len(lps) == 1, "WallCons::resistance: the loop over the layers was not found")
    ch = lps[0]["chain"]
    src = strip(ch.source)
    adaptors = list(ch.adaptors())
    for _ in range(3):
        if src[0] == "call":
            inl = inline_helper(prog, src)
            if inl is None:
                break
            ch2 = iter_chain(strip(inl))
            adaptors = list(ch2.adaptors()) + adaptors
            src = strip(ch2.source)
        else:
            break
    selecting = [a for a in adaptors if a in ("filter", "filter_map", "skip", "take", "skip_while", "take_while", "step_by")]
    if leaf_name(src) == "self.layers" and not selecting:
        ctx.ok("c06.formula", "c06.formula|WallCons::resistance|layers", "the sum runs over every layer of the construction (%s)" % adaptors, f.loc(lps[0]["line"]))
    elif leaf_name(src) == "self.layers":
        ctx.violation("c06.formula", "c06.formula|WallCons::resistance|layers", "the sum of layer resistances runs over self.layers through %s: layers that the selection drops "
                      "contribute nothing (a resistance-only layer loses its R) and a missing material on such a layer no longer makes the U-value undefined" % selecting,
                      f.loc(lps[0]["line"]))
    else:
        raise AnalysisError("WallCons::resistance: the loop runs over %s, not over self.layers" % show(src)[:80])
    errs = 0
    for b, i, s in f.body.statements():
        if s["s"] == "assign" and s["p"] == 0 and s["rv"]["r"] == "agg" and s["rv"].get("variant") == "Err":
            errs += 1
    if errs >= 2:
        ctx.ok("c06.none", "c06.none|WallCons::resistance", "missing material and non-positive conductivity return Err (%d sites)" % errs, f.loc())
    else:
        ctx.violation("c06.none", "c06.none|WallCons::resistance", "only %d error returns left: a missing material or zero conductivity no longer makes the resistance undefined" % errs, f.loc())
    # fround2 / fround3
    for nm, k, sym in (("fround2", "100", "r2"), ("fround3", "1000", "r3")):
        f = prog.find("bemodel::utils::%s" % nm)
        s9 = Scope(prog, f)
        rns = [strip(s9._rw(rn)) for _, rn in returned_nodes(f.body)]
        compare(ctx, "c06.formula", "c06.formula|%s" % nm, rns[0], "round(v*%s)/%s" % (k, k), LeafMap({"val": "v"}), None, f.loc(), nm)

    # ---------------- D3/D4/D5 in Wall::u_value
    check_dispatch(ctx, prog, uv, usc)
    ctx.programs = 12


def accumulator_terms(sc, name):
    """right-hand sides added to accumulator `name`: [(term node, line, block)] for updates of the form name = name + term"""
    body = sc.body
    out = []
    for l, nm in body.names.items():
        if nm != name:
            continue
        for d in body.defs().get(l, []):
            if d[0] != "st" or not isinstance(d[3]["p"], int):
                continue
            n = strip(sc.rvalue(d[3]["rv"]))
            if n[0] == "bin" and n[1] == "Add":
                a, b = strip(n[2]), strip(n[3])
                if a[0] == "var" and a[1] == l:
                    out.append((b, d[3].get("ln"), d[1]))
                elif b[0] == "var" and b[1] == l:
                    out.append((a, d[3].get("ln"), d[1]))
    return out


def check_dispatch(ctx, prog, uv, usc):
    body = uv.body
    bt = [v["name"] for v in prog.adt("bemodel::types::common::BoundaryType")["variants"]]
    # the switch on discr(self.bounds)
    sw = None
    for b in range(body.n):
        t = body.blocks[b]["term"]
        if t["t"] == "switch":
            n = strip(usc.operand(t["d"]))
            if n[0] == "discr" and leaf_name(strip(n[1])) == "self.bounds":
                sw = (b, t)
                break
    ctx.require(sw is not None, "Wall::u_value: switch on self.bounds not found")
    b, t = sw
    arms = {bt[int(v)]: tg for v, tg in t["arms"]}
    from .c18 import region_from
    want_calls = {
        "ADIABATIC": {"u_value_exterior"}, "EXTERIOR": {"u_value_exterior"},
        "GROUND": {"u_value_exterior", "u_value_gnd_top", "u_value_gnd_slab", "u_value_gnd_wall", "slab_d_t", "slab_psi_gnd_ext", "slab_char_dim"},
        "INTERIOR": {"u_value_interior_cond_uncond", "ua_of_external_and_ground_surfaces"},
    }
    families = {"u_value_exterior", "u_value_gnd_top", "u_value_gnd_slab", "u_value_gnd_wall", "u_value_interior_cond_uncond", "ua_of_external_and_ground_surfaces",
                "slab_d_t", "slab_psi_gnd_ext", "slab_char_dim"}
    for kind in bt:
        tg = arms.get(kind, t["else"])
        # region of the arm: blocks dominated by the arm's entry
        blocks = [x for x in range(body.n) if body.dominates(tg, x)]
        calls = set()
        for x in blocks:
            tt = body.blocks[x]["term"]
            if tt["t"] == "call":
                nm = short_callee(callee_name(tt) or "")
                if nm in families:
                    calls.add(nm)
        key = "c06.dispatch|%s" % kind
        if calls == want_calls[kind]:
            ctx.ok("c06.dispatch", key, "%s -> %s" % (kind, sorted(calls)), uv.loc())
        else:
            ctx.violation("c06.dispatch", key, "boundary kind %s dispatches to %s, expected %s" % (kind, sorted(calls), sorted(want_calls[kind])), uv.loc())
    # GROUND by tilt
    want_tilt = {"TOP": "u_value_gnd_top", "BOTTOM": "u_value_gnd_slab", "SIDE": "u_value_gnd_wall"}
    gblocks = [x for x in range(body.n) if body.dominates(arms["GROUND"], x)]
    for x in gblocks:
        tt = body.blocks[x]["term"]
        if tt["t"] == "switch":
            n = strip(usc.operand(tt["d"]))
            if n[0] == "discr" and origin_desc(strip(n[1])).endswith("self"):
                for v, tg2 in tt["arms"] + [["else", tt["else"]]]:
                    pass
                seen_t = {}
                for v, tg2 in tt["arms"]:
                    for y in region_from(body, tg2, 8):
                        t3 = body.blocks[y]["term"]
                        if t3["t"] == "call" and short_callee(callee_name(t3) or "") in want_tilt.values():
                            seen_t[TILTS[int(v)]] = short_callee(callee_name(t3))
                for y in region_from(body, tt["else"], 8):
                    t3 = body.blocks[y]["term"]
                    if t3["t"] == "call" and short_callee(callee_name(t3) or "") in want_tilt.values():
                        rest = [k for k in TILTS if k not in seen_t]
                        if len(rest) == 1:
                            seen_t[rest[0]] = short_callee(callee_name(t3))
                if seen_t == want_tilt:
                    ctx.ok("c06.dispatch", "c06.dispatch|GROUND-by-tilt", "TOP->gnd_top, BOTTOM->gnd_slab, SIDE->gnd_wall", uv.loc())
                else:
                    ctx.violation("c06.dispatch", "c06.dispatch|GROUND-by-tilt", "ground elements dispatch by tilt as %s, expected %s" % (seen_t, want_tilt), uv.loc())
                break
    # D5 burial depth
    zz = local_defs(usc, "z")
    ctx.require(len(zz) == 1, "Wall::u_value: z not found")
    bz, nz_, lnz = next(iter(zz.values()))[0]
    okz = nz_[0] == "call" and short_callee(nz_[1]) == "max" and any(strip(a)[0] == "k" and float(strip(a)[1]) == 0.0 for a in nz_[2]) and \
        any(strip(a)[0] == "un" and strip(a)[1] == "Neg" and origin_desc(strip(strip(a)[2])).endswith(".z") for a in nz_[2])
    if okz:
        ctx.ok("c06.dispatch", "c06.depth|z", "z = max(-space.z, 0)", uv.loc(lnz))
    else:
        ctx.violation("c06.dispatch", "c06.depth|z", "burial depth is %s, expected max(-space.z, 0)" % show(nz_)[:80], uv.loc(lnz))
    # ventilation precedence for the unconditioned neighbour
    nv = local_defs(usc, "n_v")
    ctx.require(len(nv) == 1, "Wall::u_value: n_v not found")
    bn, nn, lnn = next(iter(nv.values()))[0]
    ch = fallback_chain(prog, usc, nn)
    if len(ch) == 2 and ch[0].endswith(".n_v") and "global_ventilation_rate(model)" in ch[1]:
        ctx.ok("c06.dispatch", "c06.ventilation|n_v", "n_v = [space.n_v, model.global_ventilation_rate()]", uv.loc(lnn))
    else:
        ctx.violation("c06.dispatch", "c06.ventilation|n_v", "ventilation rate precedence is %s, expected [space.n_v, model.global_ventilation_rate()]" % ch, uv.loc(lnn))
    # the building-wide rate itself: 3.6 * l/s over the net volume of the habitable spaces inside the envelope (the same obligation C11 decides)
    from .c11 import check_model_ventilation
    check_model_ventilation(ctx, prog, "c06.ventilation")
    # q_ue = area * height_net * n_v
    qv = local_defs(usc, "q_ue")
    if qv:
        bq, nq, lnq = next(iter(qv.values()))[0]
        compare(ctx, "c06.formula", "c06.formula|q_ue", nq, "A * H * nv", LeafMap({"n_v": "nv"}, [(r"area\(", "A"), (r"height_net\(", "H"), (r"^unwrap_or_else\(.*n_v", "nv")]), None, uv.loc(lnq), "q_ue = V x n")
    # D3: every Some return of u_value is dominated by the Some edge of get_wallcons(self.cons)?
    gw = [(b2, t2) for b2, t2 in body.calls() if short_callee(callee_name(t2) or "") == "get_wallcons"]
    ctx.require(len(gw) == 1, "Wall::u_value: get_wallcons lookup not found")
    from ..dataflow import consumption
    kind, det = consumption(body, gw[0][0], gw[0][1])
    somes = [b2 for b2, i, s in body.statements() if s["s"] == "assign" and s["p"] == 0 and s["rv"]["r"] == "agg" and s["rv"].get("variant") == "Some"]
    calls_ret = [b2 for b2, t2 in body.calls() if t2["dest"] == 0]
    if kind == "propagated" and all(body.dominates(gw[0][0], x) for x in somes + calls_ret):
        ctx.ok("c06.none", "c06.none|Wall::u_value|construction", "every value-producing return is dominated by get_wallcons(self.cons)?", uv.loc())
    else:
        ctx.violation("c06.none", "c06.none|Wall::u_value|construction", "an element whose construction is missing can get a U-value (lookup %s)" % kind, uv.loc())
    # resistance flows through `?` on every arm: each literal Some(..) return depends on `resistance?` or on a callee that received `resistance`
    bad = []
    for b2, i, s in body.statements():
        if s["s"] == "assign" and s["p"] == 0 and s["rv"]["r"] == "agg" and s["rv"].get("variant") == "Some":
            n = usc.rvalue(s["rv"])
            txt = show(n)
            deps = any(x[0] == "var" and x[2] in ("U", "R_f") for x in walk(n)) or "resistance" in txt or "U_w" in txt or "u_value_gnd" in txt
            if not deps:
                bad.append(txt[:60])
    if bad:
        ctx.violation("c06.none", "c06.none|Wall::u_value|resistance", "a U-value is returned that does not depend on the construction's resistance: %s" % bad, uv.loc())
    else:
        ctx.ok("c06.none", "c06.none|Wall::u_value|resistance", "every Some(..) return depends on `resistance?` (directly or through R_f / U_w)", uv.loc())


def run_fixture(ctx):
    prog = ctx.prog
    f = prog.fn_by_path("poscontrol::c06_u")
    sc = Scope(prog, f)
    rns = [unwrap_some(sc._rw(rn)) for _, rn in returned_nodes(f.body)]
    compare(ctx, "c06.formula", "fixture", rns[0], "1 / (R + Rsi + 0.04)", LeafMap({"r": "R", "rsi": "Rsi"}), None, f.loc(), "fixture U")
