"""C19 - Damaged project files are rejected with an error, never with a crash or hang."""
from ..panics import Inventory, reachable_sites, assign_keys
from ..loops import recursion_cycles
from ..cfgq import Scope
from ..exprs import strip, short_callee, walk, show
from ..mir import callee_name
from ..facts import AnalysisError
from ._totality import report_sites, report_loops, sanitize
from ..spec.triage import C19_EXCEPTIONS, C19_LOOP_EXCEPTIONS, CUSTOM_ITER_OK, RECURSION_OK

ID = "C19"
LEVEL = "other"
RULE_TEXT = ("complete inventory of may-panic sites (explicit panics/asserts, unwrap/expect, indexing and slicing, integer overflow/division asserts, "
             "panicking std calls), loops and recursion cycles in the workspace code reachable from the parse/convert entry points; each site is "
             "guarded by a recognised idiom, exempt, an exception with a reason valid for arbitrary file content, or a finding")
EXPLANATION = ("D1 every may-panic site reachable from ctehexml/kyg/tbl parsing, Data::new, Model::try_from and collect_hulc_data is guarded, exempt, "
               "excepted with a reason, or listed as a known finding; D2 every loop is of a terminating kind; D3 no unexplained recursion cycle. "
               "Sites in the indicator code entered through C14's roots (fix_ecdata_from_extra -> energy_indicators on the converted model) are decided by C14's "
               "inventory; indicator-side functions the converter calls directly are inventoried here")
DECIDED = ["D1 no unguarded crash site beyond the triaged list (new sites are violations)", "D2 loops terminate", "D3 recursion",
           "D4 the MONTH/DAY numbers of a year schedule are range-tested before they become day counts (no allocation driven by a damaged number)"]
UNDECIDED = ["that each exception's reason holds (reviewed, not proved)", "panics inside external crates (roxmltree, encoding, flate2, regex)"]
ASSUMPTIONS = ["dev-profile MIR (overflow and bounds asserts explicit); release builds turn overflow into wrap-around that fails at the next index",
               "external crates do not panic on malformed input"]
LEVEL_TEXT = ("Exhaustive inventory plus triage: every construct in the reachable parser/converter code that can panic (every Assert terminator, every panicking "
              "callee, every index) is enumerated from MIR and must be covered by a guard idiom, a reasoned exception or a listed finding, so any new crash "
              "site - `?` turned into unwrap(), a bail! guard deleted in front of an index, a new assert! - is reported with its call chain from the entry "
              "point. Detection of new sites is sound for workspace code; the exceptions' reasons are reviewed, not proved, and the findings listed in "
              "KNOWN_FINDINGS.txt are genuine crash sites that remain.")
LEVEL_NOTE = "Trusted: rustc MIR (dev profile), the guard-idiom table, external crates' behaviour on malformed input."
TECHNIQUE = "may-panic site inventory over MIR with dominance-based guard recognition, loop classification, call-graph SCCs, dominance of range tests over calendar arithmetic"
FIXTURE_EXPECT = ["c19.panic", "c19.loop"]

ENTRY = ["hulc::ctehexml::parse_with_catalog", "hulc::ctehexml::parse_with_catalog_from_path", "hulc::kyg::parse", "hulc::kyg::parse_from_path",
         "hulc::tbl::parse", "hulc2model::collect_hulc_data", "hulc2model::fix_ecdata_from_extra", "hulc::bdl::Data::new", "hulc::bdl::Data::new_from_path"]
C14_SIDE = ("bemodel::energy", "bemodel::types", "bemodel::climatedata", "climate::", "bemodel::checks", "bemodel::<energy", "bemodel::<types",
            "bemodel::<std::vec::Vec", "bemodel::utils::fround", "bemodel::utils::normalize", "bemodel::purge")


def in_scope(fn, prog=None):
    p = (prog.root_of(fn).path if prog else fn.path)
    return not p.startswith(C14_SIDE)


def roots(ctx):
    prog = ctx.prog
    r = [prog.find(s).id for s in ENTRY]
    conv = [x for x in prog.fns.values() if x.raw.get("impl_trait", "") and "TryFrom" in x.raw.get("impl_trait", "")
            and x.raw.get("impl_self", "").endswith("types::model::Model") and x.id.endswith("::try_from")]
    ctx.require(conv, "anchor Model::try_from not found")
    return r + [c.id for c in conv]


def check_calendar_ranges(ctx, prog, rule="c19.range"):
    """"a number replaced by ... an out-of-range value ... is either still converted or rejected ... never crash or hang": the MONTH and DAY lists of a year
    schedule become, through `day_of_year`, the number of days each weekly schedule is in force, and the indicator computation expands a year day by day.
    `day_of_year` is float arithmetic cast to u32: it saturates instead of failing, so MONTH = 4000000000 converts to a period of 4 294 967 295 days and the
    export tool dies allocating 64 GiB when it computes its summary.  Every caller of `day_of_year` must therefore test both lists against constant bounds
    (an `any`/`all` over the list whose closure compares with constants or asks a constant range), and the test must dominate the use."""
    from ..exprs import leaf_name
    from ..cfgq import iter_chain, closure_id_of
    doy = [f for f in prog.fns.values() if f.path.endswith("convert::from_ctehexml::day_of_year") and f.root == f.id]
    ctx.require(len(doy) == 1, "day_of_year not found")
    doy = doy[0]
    from ..mir import callee_id
    callers = {}
    for f in prog.fns.values():
        for b, t in f.body.calls():
            if callee_id(t) == doy.id:
                callers.setdefault(prog.root_of(f).id, []).append((f, b, t))
    ctx.floor(rule, "callers of day_of_year", len(callers), 1)
    for rid, uses in sorted(callers.items()):
        R = prog.fns[rid]
        sc = Scope(prog, R)
        tested = {}
        for b, t in R.body.calls():
            if short_callee(callee_name(t) or "") not in ("any", "all") or len(t["args"]) != 2:
                continue
            ch = iter_chain(strip(sc.operand(t["args"][0])))
            src = (ch.source_name() or "")
            cid = closure_id_of(strip(sc.operand(t["args"][1])))
            if not cid or cid not in prog.fns:
                continue
            cf = prog.fns[cid]
            csc = Scope(prog, cf)
            bounded = False
            for cb, ct in cf.body.calls():
                if short_callee(callee_name(ct) or "") == "contains":
                    rng = strip(csc.operand(ct["args"][0]))
                    ks = [x for x in walk(rng) if x[0] == "k"]
                    if len(ks) >= 2:
                        bounded = True
            for cb in range(cf.body.n):
                tt = cf.body.blocks[cb]["term"]
                if tt["t"] == "switch":
                    d = strip(csc.operand(tt["d"]))
                    if d[0] == "bin" and d[1] in ("Lt", "Le", "Gt", "Ge") and any(strip(x)[0] == "k" for x in (d[2], d[3])):
                        bounded = True
            if bounded:
                tested.setdefault(src.split(".")[-1], []).append(b)
        for f, b, t in uses:
            # the block of R in which the value that reaches day_of_year is produced: R itself, or the adaptor call the closure is handed to
            use_blocks = [b] if f.id == R.id else [bb for bb, tt in R.body.calls() if any(closure_id_of(strip(sc.operand(a))) == f.id for a in tt["args"])]
            key = "%s|%s|day_of_year" % (rule, R.path.split("::")[-1])
            missing = [w for w in ("months", "days") if not any(R.body.dominates(tb, ub) for tb in tested.get(w, []) for ub in use_blocks)]
            if not use_blocks:
                raise AnalysisError("%s: where the closure calling day_of_year is used was not found" % R.path)
            if missing:
                ctx.violation(rule, key, "the %s list of a year schedule goes into day_of_year without a test against constant bounds: an out-of-range number in the file "
                              "(MONTH = 4000000000) becomes a period of up to 4294967295 days, which the indicator computation expands day by day - the export tool "
                              "dies allocating tens of GB" % " and the ".join(missing), R.loc(t.get("ln")))
            else:
                ctx.ok(rule, key, "months and days are tested against constant bounds before they become day counts", R.loc(t.get("ln")))


def run(ctx):
    prog = ctx.prog
    inv = Inventory(prog, ctx.cg)
    rts = roots(ctx)
    # indicator-side code (bemodel::energy, climate, ..) is C14's when it is entered through C14's roots (a loaded model); anything the
    # parse/convert code reaches *directly*, with arguments of its own making, is inventoried here whatever crate it lives in
    from .c14 import roots as c14_roots
    direct = set(ctx.cg.reachable(rts, cut=set(c14_roots(ctx))))

    def mine(f):
        return in_scope(f, prog) or f.id in direct or prog.root_of(f).id in direct
    seen, sites = reachable_sites(ctx, inv, rts, skip_fn=lambda f: not mine(f))
    assign_keys(prog, sites, "c19.panic")
    ctx.extra_cov["indicator_side_bodies_reached_directly"] = sum(1 for f in direct if not in_scope(prog.fns[f], prog))
    ctx.floor("c19.reach", "reachable bodies", len(seen), 500)
    ctx.floor("c19.panic", "classified may-panic sites", len(sites), 120)
    report_sites(ctx, "c19.panic", sites, C19_EXCEPTIONS, seen)
    delegated = sum(1 for f in seen if not mine(prog.fns[f]))
    ctx.extra_cov["bodies_delegated_to_C14"] = delegated
    nloops = report_loops(ctx, "c19.loop", prog, seen, mine, C19_LOOP_EXCEPTIONS, CUSTOM_ITER_OK)
    ctx.floor("c19.loop", "loops classified", nloops, 30)
    for comp in recursion_cycles(ctx.cg, seen):
        names = sorted({prog.root_of(prog.fns[c]).path for c in comp})
        key = sanitize("c19.recursion|" + "|".join(names)[:200])
        if not any(mine(prog.fns[c]) for c in comp):
            continue
        from ..spec.triage import recursion_reason
        if key in RECURSION_OK or recursion_reason(names):
            ctx.exception("c19.recursion", key, RECURSION_OK.get(key) or recursion_reason(names), prog.fns[comp[0]].loc())
        else:
            ctx.violation("c19.recursion", key, "recursion cycle in reachable code (depth driven by input?): %s" % names, prog.fns[comp[0]].loc())
    check_calendar_ranges(ctx, prog)
    ctx.ok("c19.recursion", "c19.recursion|scan", "call-graph SCCs of %d reachable bodies examined" % len(seen), None)


def run_fixture(ctx):
    prog = ctx.prog
    inv = Inventory(prog, ctx.cg)
    root = prog.fn_by_path("poscontrol::c19_parse")
    seen, sites = reachable_sites(ctx, inv, [root.id])
    assign_keys(prog, sites, "c19.panic")
    report_sites(ctx, "c19.panic", sites, {}, seen)
    report_loops(ctx, "c19.loop", prog, seen, lambda f: True, {}, {})
