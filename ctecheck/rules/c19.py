"""C19 - Damaged project files are rejected with an error, never with a crash or hang."""
from ..panics import Inventory, reachable_sites, assign_keys
from ..loops import recursion_cycles
from ._totality import report_sites, report_loops, sanitize
from ..spec.triage import C19_EXCEPTIONS, C19_LOOP_EXCEPTIONS, CUSTOM_ITER_OK, RECURSION_OK

ID = "C19"
LEVEL = "other"
RULE_TEXT = ("complete inventory of may-panic sites (explicit panics/asserts, unwrap/expect, indexing and slicing, integer overflow/division asserts, "
             "panicking std calls), loops and recursion cycles in the workspace code reachable from the parse/convert entry points; each site is "
             "guarded by a recognised idiom, exempt, an exception with a reason valid for arbitrary file content, or a finding")
EXPLANATION = ("D1 every may-panic site reachable from ctehexml/kyg/tbl parsing, Data::new, Model::try_from and collect_hulc_data is guarded, exempt, "
               "excepted with a reason, or listed as a known finding; D2 every loop is of a terminating kind; D3 no unexplained recursion cycle. "
               "Sites in the indicator code entered through C14's roots (fix_ecdata_from_extra -> energy_indicators on the converted model) are decided by C14's "
               "inventory; indicator-side functions the converter calls directly are inventoried here")
DECIDED = ["D1 no unguarded crash site beyond the triaged list (new sites are violations)", "D2 loops terminate", "D3 recursion"]
UNDECIDED = ["that each exception's reason holds (reviewed, not proved)", "panics inside external crates (roxmltree, encoding, flate2, regex)"]
ASSUMPTIONS = ["dev-profile MIR (overflow and bounds asserts explicit); release builds turn overflow into wrap-around that fails at the next index",
               "external crates do not panic on malformed input"]
LEVEL_TEXT = ("Exhaustive inventory plus triage: every construct in the reachable parser/converter code that can panic (every Assert terminator, every panicking "
              "callee, every index) is enumerated from MIR and must be covered by a guard idiom, a reasoned exception or a listed finding, so any new crash "
              "site - `?` turned into unwrap(), a bail! guard deleted in front of an index, a new assert! - is reported with its call chain from the entry "
              "point. Detection of new sites is sound for workspace code; the exceptions' reasons are reviewed, not proved, and the findings listed in "
              "KNOWN_FINDINGS.txt are genuine crash sites that remain.")
LEVEL_NOTE = "Trusted: rustc MIR (dev profile), the guard-idiom table, external crates' behaviour on malformed input."
TECHNIQUE = "may-panic site inventory over MIR with dominance-based guard recognition, loop classification, call-graph SCCs"
FIXTURE_EXPECT = ["c19.panic", "c19.loop"]

ENTRY = ["hulc::ctehexml::parse_with_catalog", "hulc::ctehexml::parse_with_catalog_from_path", "hulc::kyg::parse", "hulc::kyg::parse_from_path",
         "hulc::tbl::parse", "hulc2model::collect_hulc_data", "hulc2model::fix_ecdata_from_extra", "hulc::bdl::Data::new", "hulc::bdl::Data::new_from_path"]
C14_SIDE = ("bemodel::energy", "bemodel::types", "bemodel::climatedata", "climate::", "bemodel::checks", "bemodel::<energy", "bemodel::<types",
            "bemodel::<std::vec::Vec", "bemodel::utils::fround", "bemodel::utils::normalize", "bemodel::purge")


def in_scope(fn, prog=None):
    p = (prog.root_of(fn).path if prog else fn.path)
    return not p.startswith(C14_SIDE)


def roots(ctx):
    prog = ctx.prog
    r = [prog.find(s).id for s in ENTRY]
    conv = [x for x in prog.fns.values() if x.raw.get("impl_trait", "") and "TryFrom" in x.raw.get("impl_trait", "")
            and x.raw.get("impl_self", "").endswith("types::model::Model") and x.id.endswith("::try_from")]
    ctx.require(conv, "anchor Model::try_from not found")
    return r + [c.id for c in conv]


def run(ctx):
    prog = ctx.prog
    inv = Inventory(prog, ctx.cg)
    rts = roots(ctx)
    # indicator-side code (bemodel::energy, climate, ..) is C14's when it is entered through C14's roots (a loaded model); anything the
    # parse/convert code reaches *directly*, with arguments of its own making, is inventoried here whatever crate it lives in
    from .c14 import roots as c14_roots
    direct = set(ctx.cg.reachable(rts, cut=set(c14_roots(ctx))))

    def mine(f):
        return in_scope(f, prog) or f.id in direct or prog.root_of(f).id in direct
    seen, sites = reachable_sites(ctx, inv, rts, skip_fn=lambda f: not mine(f))
    assign_keys(prog, sites, "c19.panic")
    ctx.extra_cov["indicator_side_bodies_reached_directly"] = sum(1 for f in direct if not in_scope(prog.fns[f], prog))
    ctx.floor("c19.reach", "reachable bodies", len(seen), 500)
    ctx.floor("c19.panic", "classified may-panic sites", len(sites), 120)
    report_sites(ctx, "c19.panic", sites, C19_EXCEPTIONS, seen)
    delegated = sum(1 for f in seen if not mine(prog.fns[f]))
    ctx.extra_cov["bodies_delegated_to_C14"] = delegated
    nloops = report_loops(ctx, "c19.loop", prog, seen, mine, C19_LOOP_EXCEPTIONS, CUSTOM_ITER_OK)
    ctx.floor("c19.loop", "loops classified", nloops, 30)
    for comp in recursion_cycles(ctx.cg, seen):
        names = sorted({prog.root_of(prog.fns[c]).path for c in comp})
        key = sanitize("c19.recursion|" + "|".join(names)[:200])
        if not any(mine(prog.fns[c]) for c in comp):
            continue
        from ..spec.triage import recursion_reason
        if key in RECURSION_OK or recursion_reason(names):
            ctx.exception("c19.recursion", key, RECURSION_OK.get(key) or recursion_reason(names), prog.fns[comp[0]].loc())
        else:
            ctx.violation("c19.recursion", key, "recursion cycle in reachable code (depth driven by input?): %s" % names, prog.fns[comp[0]].loc())
    ctx.ok("c19.recursion", "c19.recursion|scan", "call-graph SCCs of %d reachable bodies examined" % len(seen), None)


def run_fixture(ctx):
    prog = ctx.prog
    inv = Inventory(prog, ctx.cg)
    root = prog.fn_by_path("poscontrol::c19_parse")
    seen, sites = reachable_sites(ctx, inv, [root.id])
    assign_keys(prog, sites, "c19.panic")
    report_sites(ctx, "c19.panic", sites, {}, seen)
    report_loops(ctx, "c19.loop", prog, seen, lambda f: True, {}, {})
