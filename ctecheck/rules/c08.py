"""C08 - K is the area-weighted mean transmittance of the thermal envelope."""
import itertools

from ..cfgq import Scope, returned_nodes, bool_taken, iter_chain
from ..exprs import strip, short_callee, show, leaf_name, walk, origin_desc
from ..facts import AnalysisError
from ..formulas import LeafMap, compare, fallback_chain, updates, FNormalizer
from .. import tables as TB
from .. import types as T
from .c06 import local_defs
from .c09 import scope_table, guard_of

ID = "C08"
LEVEL = "other"
RULE_TEXT = ("scope predicate of KData::from as a truth table; every accumulator update as a normalised term; the U precedence chains; the (bounds, tilt) -> category and "
             "bridge kind -> accumulator decision tables evaluated on all combinations; the totals and guards; the provenance of area_net / multiplier in EnergyProps; "
             "absence of element names in the EnergyProps type closure")
EXPLANATION = ("D1 scope = is_tenv and bounds in {EXTERIOR, GROUND}, windows through their wall; D2 terms multiplier*area_net*U and multiplier*area*U; D3 U = [override, computed, 5.7]; "
               "D4 categories (GROUND first, then by tilt) and nine bridge kinds, bridges with l < 0 skipped; D5 totals over exactly the categories, K = au/a guarded, means "
               "guarded, min/max of the same U; D6 K cannot depend on names")
DECIDED = ["D1 scope", "D2 terms", "D3 precedence chains", "D4 category tables", "D5 totals, guards, min/max", "D6 independence of names",
           "D7 accumulation loops end only on iterator exhaustion (no break/return); U overrides reach the indicator unchanged from overrides.walls / overrides.windows",
           "D8 no first-match selection over a model list by a test several elements can pass (order independence of what K is computed from)"]
UNDECIDED = ["invariance under reordering beyond first-match selections (float summation order)", "'mean between min and max' as a value statement"]
ASSUMPTIONS = ["Wall::area_net = gross area - sum of window areas (checked as provenance only)"]
LEVEL_TEXT = ("Tables and dependence: the envelope scope is evaluated on all 8 combinations, the two decision tables on all 12 + 9 combinations, every accumulator update and "
              "total is normalised and compared with the statement's terms, precedence chains are compared in order, and guards are read as dominating comparisons. "
              "Decides the structure of K for every model; float summation order (reordering invariance) is not decided.")
LEVEL_NOTE = "Trusted: rustc MIR; exact-rational reading of literals."
TECHNIQUE = "finite truth/decision-table evaluation over the CFG + normalised comparison of accumulator updates + type-graph walk"
FIXTURE_EXPECT = ["c08.scope"]

CATS = {"GROUND": "ground", "TOP": "roofs", "BOTTOM": "floors", "SIDE": "walls"}


def closure_return(prog, sc, clnode, elem):
    from ..cfgq import closure_id_of, closure_env
    cid = closure_id_of(clnode)
    if not cid or cid not in prog.fns:
        return None
    cfn = prog.fns[cid]
    csc = Scope(prog, cfn, closure_env(strip(clnode)), elem, sc)
    rns = returned_nodes(cfn.body)
    return strip(csc._rw(rns[0][1])) if len(rns) == 1 else None


def check_override_passthrough(ctx, rule, prog, ep, props_adt, field, table, ofield):
    """<props_adt>.<field> of EnergyProps is the user's override as written: and_then(get(model.overrides.<table>, element id), |o| o.<ofield>), with nothing
    that selects among its values on the way (a filter on the value silently ignores some overrides)"""
    root = Scope(prog, ep)
    lits = [(sc, sc.rvalue(s_["rv"]), s_.get("ln")) for sc in root.all_scopes() for b, i, s_ in sc.body.statements()
            if s_["s"] == "assign" and s_["rv"]["r"] == "agg" and s_["rv"].get("adt", "").endswith("props::" + props_adt)]
    ctx.require(len(lits) == 1, "%s literal not found in EnergyProps::from" % props_adt)
    sc, n, ln = lits[0]
    fl = dict(zip(n[2], n[3]))
    v = strip(fl[field])
    key = "%s|%s.%s" % (rule, props_adt, field)
    SELECTING = ("filter", "take_if", "xor", "zip", "and", "or", "or_else", "map", "unwrap_or", "unwrap_or_default", "unwrap_or_else", "min", "max", "clamp")
    outer = []
    cur = v
    while cur[0] == "call" and short_callee(cur[1]) in SELECTING and cur[2]:
        outer.append(short_callee(cur[1]))
        cur = strip(cur[2][0])
    okshape = cur[0] == "call" and short_callee(cur[1]) == "and_then" and len(cur[2]) == 2 and strip(cur[2][0])[0] == "call" and short_callee(strip(cur[2][0])[1]) == "get" \
        and (leaf_name(strip(strip(cur[2][0])[2][0])) or "").endswith("overrides." + table)
    if not okshape:
        # the entry is looked up, but what is taken from it is decided inside a closure applied with `map` (the outer loop above stepped through it):
        # `map(get(table, id), |o| o.<field>.unwrap_or(k))` turns "no override of this field" into the constant k
        isget = cur[0] == "call" and short_callee(cur[1]) == "get" and (leaf_name(strip(cur[2][0])) or "").endswith("overrides." + table)
        vv = v
        while vv[0] == "call" and short_callee(vv[1]) in SELECTING and vv[2] and short_callee(vv[1]) != "map":
            vv = strip(vv[2][0])
        if isget and vv[0] == "call" and short_callee(vv[1]) == "map" and len(vv[2]) == 2:
            r_ = closure_return(prog, sc, vv[2][1], ("elem", "O", ()))
            if r_ is not None and r_[0] == "call" and short_callee(r_[1]) in ("unwrap_or", "unwrap_or_default", "unwrap_or_else", "map_or"):
                ctx.violation(rule, key, "an override entry that does not give %s yields %s instead of `no override` (an entry may give only U or only F_sh;obst): the computed or "
                              "default value is never used for that element" % (ofield, show(r_)[:70]), ep.loc(ln))
                return
        raise AnalysisError("%s.%s is %s: not a lookup of model.overrides.%s" % (props_adt, field, show(v)[:100], table))
    r = closure_return(prog, sc, cur[2][1], ("elem", "O", ()))
    rname = leaf_name(r) if r is not None else None
    if outer:
        ctx.violation(rule, key, "the user's %s override goes through %s before it is used: some of the values a user can give are dropped or altered (%s)"
                      % (ofield, "/".join(reversed(outer)), show(v)[:120]), ep.loc(ln))
    elif rname != "O[]." + ofield and rname != "O." + ofield:
        ctx.violation(rule, key, "%s.%s is taken from %s of the override entry, expected its %s" % (props_adt, field, rname or show(r)[:60], ofield), ep.loc(ln))
    else:
        ctx.ok(rule, key, "%s.%s = overrides.%s[id].%s, unchanged" % (props_adt, field, table, ofield), ep.loc(ln))


def minmax_shape(prog, sc, term, fn_, uname, dest):
    """dest = dest.map(|v| v.<fn_>(U)).or(Some(U))"""
    from ..exprs import mkproj
    t = strip(term)
    if not (t[0] == "call" and short_callee(t[1]) == "or" and len(t[2]) == 2):
        return False
    m, alt = strip(t[2][0]), strip(t[2][1])
    if not (alt[0] == "agg" and alt[1].endswith("Some") and leaf_name(strip(alt[3][0])) == uname):
        return False
    if not (m[0] == "call" and short_callee(m[1]) == "map" and leaf_name(strip(m[2][0])) == dest):
        return False
    r = closure_return(prog, sc, m[2][1], mkproj(strip(m[2][0]), ("@Some", ".0")))
    if r is None or r[0] != "call" or short_callee(r[1]) != fn_ or len(r[2]) != 2:
        return False
    names = sorted(leaf_name(strip(a)) or "" for a in r[2])
    return names == sorted([dest + "@Some.0", uname])


def winprops_inherit(ctx, prog):
    """WinProps.{is_tenv, bounds, multiplier} are those of the window's wall (needed when K selects windows by their own attributes)"""
    ep = prog.method("energy::props::EnergyProps", "convert::From", "from")
    esc = Scope(prog, ep)
    wl = [(sc, sc.rvalue(s["rv"]), s.get("ln")) for sc in esc.all_scopes() for b, i, s in sc.body.statements()
          if s["s"] == "assign" and s["rv"]["r"] == "agg" and s["rv"].get("adt", "").endswith("props::WinProps")]
    ctx.require(len(wl) == 1, "WinProps literal not found")
    sc, n, ln = wl[0]
    fl = dict(zip(n[2], n[3]))
    from ..exprs import mkproj
    wallp = [sc2.rvalue(s2["rv"]) for sc2 in esc.all_scopes() for b, i, s2 in sc2.body.statements()
             if s2["s"] == "assign" and s2["rv"]["r"] == "agg" and s2["rv"].get("adt", "").endswith("props::WallProps")]
    ctx.require(len(wallp) == 1, "WallProps literal not found")
    wall_tenv = origin_desc(strip(dict(zip(wallp[0][2], wallp[0][3]))["is_tenv"]))
    for fld, ok in (("is_tenv", lambda d, r: "contains(" in d and d.endswith("model.windows[].wall)") and d == wall_tenv.replace("model.walls[].id)", "model.windows[].wall)")),
                    ("bounds", lambda d, r: "get(walls,model.windows[].wall)" in d and r is not None and r.endswith("@Some.0.bounds")),
                    ("multiplier", lambda d, r: "get(walls,model.windows[].wall)" in d and r is not None and r.endswith("@Some.0.multiplier"))):
        node = strip(fl[fld])
        d = origin_desc(node)
        r = None
        cur = node
        # unwrap_or_default(map(opt, closure)) / map_or(opt, default, closure)
        if cur[0] == "call" and short_callee(cur[1]) in ("unwrap_or_default", "unwrap_or") and cur[2]:
            cur = strip(cur[2][0])
        if cur[0] == "call" and short_callee(cur[1]) in ("map", "map_or") and len(cur[2]) >= 2:
            rr = closure_return(prog, sc, cur[2][-1], mkproj(strip(cur[2][0]), ("@Some", ".0")))
            r = origin_desc(rr) if rr else None
        key = "c08.prov|WinProps.%s" % fld
        if ok(d, r):
            ctx.ok("c08.prov", key, "WinProps.%s is inherited from the window's wall" % fld, ep.loc(ln))
        else:
            ctx.violation("c08.prov", key, "K selects windows by their own %s, but WinProps.%s is %s (closure value %s), not the wall's" % (fld, fld, d[:100], r), ep.loc(ln))


def check_order_independence(ctx, prog, rule="c08.order"):
    """"K does not change when elements are reordered": nothing K is computed from may pick *the first* of several elements of a model list.
    Every first-match selection (find / find_map / position / first / last / get(0) / [0]) in the code K depends on - EnergyProps::from, KData::from, the
    U-value functions and what they call in bemodel, the ray tracing apart - is classified: a search by a unique key (`x.id == wanted`) returns the same
    element in any order; a selection over a sorted map does not depend on the list order; anything else returns whichever matching element comes first."""
    from ..mir import callee_name as _cn
    roots = [prog.method("energy::indicators::k::KData", "convert::From", "from"), prog.method("energy::props::EnergyProps", "convert::From", "from"),
             prog.method("types::opaques::Wall", None, "u_value")]
    seen = ctx.cg.reachable([r.id for r in roots])
    n = 0
    for fid in sorted(seen):
        f = prog.fns[fid]
        if f.crate != "bemodel" or f.raw.get("impl_derived") or "raytracing" in f.path or "energy::radiation" in f.path or "climatedata" in f.path:
            continue
        sc = None
        cnt = {}
        for b, t in f.body.calls():
            nm = _cn(t) or ""
            s_ = short_callee(nm)
            if s_ not in ("find", "find_map", "position", "rfind", "rposition", "first", "last", "get", "index", "nth", "max_by", "min_by", "max_by_key", "min_by_key") or not t["args"]:
                continue
            sc = sc or Scope(prog, f)
            recv = strip(sc.operand(t["args"][0]))
            if s_ in ("get", "index"):
                if len(t["args"]) != 2 or "Map" in nm or "Set" in nm:
                    continue
                idx = strip(sc.operand(t["args"][1]))
                if not (idx[0] == "k" and idx[1] == "0"):
                    continue
            if s_ == "nth" and not (len(t["args"]) == 2 and strip(sc.operand(t["args"][1]))[0] == "k"):
                continue
            txt = show(recv)
            # what is being searched: a list of model elements (or a filtered copy of one)?
            src = iter_chain(recv)
            sname = (src.source_name() or origin_desc(strip(src.source)) or "")
            import re as _re
            over_model_list = any(_re.search(r"\b%s\b" % x, txt) for x in ("walls", "spaces", "windows", "thermal_bridges", "shades", "wallcons", "wincons", "materials", "glasses",
                                                                            "frames", "year", "week", "day", "loads", "thermostats", "layers"))
            if not over_model_list or "values(" in txt or "keys(" in txt or "BTreeMap" in nm:
                continue
            n += 1
            desc = "%s|%s" % (f.path.split("bemodel::")[-1].split("::{")[0], s_)
            k_ = cnt.get(desc, 0)
            cnt[desc] = k_ + 1
            key = "%s|%s%s" % (rule, desc, "|%d" % k_ if k_ else "")
            loc = f.loc(t.get("ln"))
            unique = False
            if s_ in ("find", "find_map", "position", "rfind", "rposition") and len(t["args"]) == 2:
                r = closure_return(prog, sc, sc.operand(t["args"][1]), ("elem", "E", ()))
                if r is not None:
                    r = strip(r)
                    sides = []
                    if r[0] == "call" and short_callee(r[1]) == "eq" and len(r[2]) == 2:
                        sides = [strip(r[2][0]), strip(r[2][1])]
                    elif r[0] == "bin" and r[1] == "Eq":
                        sides = [strip(r[2]), strip(r[3])]
                    names = [leaf_name(x) or "" for x in sides]
                    if any(nm_ in ("E[].id", "E.id") or nm_.endswith("[].id") and nm_.startswith("E") for nm_ in names) and not any("E" in (nm2 or "")[:1] and nm2 not in ("E[].id", "E.id") for nm2 in names):
                        unique = True
            if unique:
                ctx.ok(rule, key, "`%s` by unique id: the same element whatever the order" % s_, loc)
            else:
                ctx.violation(rule, key, "`%s` over %s picks the first element that matches a test several elements can pass (%s): which one it is depends on the order of the "
                              "model's lists, and so does everything computed from it (net height, characteristic dimension, U, K)" % (s_, sname or txt[:40], txt[:80]), loc)
    ctx.floor(rule, "first-match selections over model lists in the code K depends on", n, 8)


def run(ctx):
    prog = ctx.prog
    f = prog.method("energy::indicators::k::KData", "convert::From", "from")
    from ..loops import check_no_early_exit
    check_no_early_exit(ctx, "c08.loop", prog, f, "K")
    check_order_independence(ctx, prog)
    root = Scope(prog, f)
    bt = [v["name"] for v in prog.adt("bemodel::types::common::BoundaryType")["variants"]]
    tilts = [v["name"] for v in prog.adt("bemodel::types::common::Tilt")["variants"]]
    kinds = [v["name"] for v in prog.adt("bemodel::types::thermalbridge::ThermalBridgeKind")["variants"]]
    filt = [ch for (b, t, ch) in root.children() if ch.via[0] == "filter" and ((ch.via[1].source_name() if ch.via[1] is not None else None) or "").endswith("props.walls")]
    ctx.require(len(filt) >= 1, "KData::from: wall filter not found")
    scope_table(ctx, "c08.scope", "c08.scope|opaques", filt, ["is_tenv", "bounds"], {"bounds": bt},
                lambda a: a["is_tenv"] and a["bounds"] in ("EXTERIOR", "GROUND"), f.loc())
    wfil = [ch for sc in root.all_scopes() for (b, t, ch) in sc.children() if ch.via[0] == "filter" and ((ch.via[1].source_name() if ch.via[1] is not None else None) or "").endswith("props.windows")]
    ctx.require(len(wfil) == 1, "KData::from: window filter not found")
    rn = returned_nodes(wfil[0].body)
    d0 = origin_desc(strip(wfil[0]._rw(rn[0][1]))) if len(rn) == 1 else ""
    own_scope = False
    if "eq(" in d0 and "props.windows[].1.wall" in d0 and "props.walls[].0" in d0:
        ctx.ok("c08.scope", "c08.scope|windows", "windows are taken through their wall (win.wall == wall_id), inheriting its scope", f.loc())
    else:
        # windows selected by their own (inherited) attributes: the same truth table must hold, and the attributes must be the wall's
        own_scope = True
        scope_table(ctx, "c08.scope", "c08.scope|windows", wfil[0], ["is_tenv", "bounds"], {"bounds": bt},
                    lambda a: a["is_tenv"] and a["bounds"] in ("EXTERIOR", "GROUND"), f.loc())
        winprops_inherit(ctx, prog)

    ups = updates(root)
    byd = {}
    for u in ups:
        byd.setdefault(u["dest"], []).append(u)
    lm = LeafMap({"props.walls[].1.multiplier": "m", "props.windows[].1.area": "aw", "props.walls[].1.area_net": "an", "win_u": "Uw", "wall_u": "Uo",
                  "props.thermal_bridges[].l": "L", "props.thermal_bridges[].psi": "psi"})
    if own_scope:
        lm["props.windows[].1.multiplier"] = "m"
    spec = [("k.windows.a", "m * aw"), ("k.windows.au", "m * aw * Uw"), ("element_case.a", "m * an"), ("element_case.au", "m * an * Uo"),
            ("tb_case.l", "L"), ("tb_case.psil", "psi * L")]
    nacc = 0
    for dest, ref in spec:
        us = [u for u in byd.get(dest, []) if u["op"] == "+="]
        key = "c08.term|%s" % dest
        if len(us) != 1:
            ctx.violation("c08.term", key, "expected exactly one `%s += ..`, found %d" % (dest, len(us)), f.loc())
            continue
        nacc += 1
        compare(ctx, "c08.term", key, us[0]["term"], ref, lm, None, f.loc(us[0]["line"]), "%s +=" % dest)
    # bridges with l < 0 skipped
    us = [u for u in byd.get("tb_case.l", []) if u["op"] == "+="]
    if us:
        gs = guard_of(us[0])
        okg = any(g[0] in ("props.thermal_bridges[].l", "l") and g[1] == "Lt" and float(g[2]) == 0.0 and g[3] is False for g in gs)
        if okg:
            ctx.ok("c08.term", "c08.term|bridge-length-guard", "bridges are accumulated only when not (l < 0.0)", f.loc(us[0]["line"]))
        else:
            ctx.violation("c08.term", "c08.term|bridge-length-guard", "bridge accumulation is guarded by %s, expected `l < 0.0` skipped (bridges of non-negative length count)" % gs, f.loc(us[0]["line"]))
    # min / max
    for dest in ("k.windows", "element_case"):
        for fld, fn_, uvar in (("u_max", "max", None), ("u_min", "min", None)):
            us = byd.get("%s.%s" % (dest, fld), [])
            key = "c08.minmax|%s.%s" % (dest, fld)
            uname = "win_u" if dest == "k.windows" else "wall_u"
            okm = False
            if len(us) == 1:
                okm = minmax_shape(prog, us[0]["scope"], us[0]["term"], fn_, uname, "%s.%s" % (dest, fld))
            if okm:
                ctx.ok("c08.minmax", key, "%s = %s(previous, %s) of the same U that enters the sum" % (fld, fn_, uname), f.loc(us[0]["line"]))
            else:
                ctx.violation("c08.minmax", key, "%s update is %s" % (fld, [show(u["term"])[:80] for u in us]), f.loc())
    # D3 chains
    for var, src in (("win_u", "props.windows[].1"), ("wall_u", "props.walls[].1")):
        defs = [u for u in ups if u["dest"] == var]
        chains = set()
        consts = set()
        for u in defs:
            t = u["term"]
            if t[0] == "k":
                consts.add(float(t[1]))
            else:
                base = t[1] if (t[0] == "proj" and t[2] == ("@Some", ".0")) else t
                chains.add(tuple(fallback_chain(prog, u["scope"], base)))
        key = "c08.chain|%s" % var
        want = (src + ".u_value_override", src + ".u_value")
        if chains == {want} and consts == {5.7}:
            ctx.ok("c08.chain", key, "U = [u_value_override, u_value, 5.7]", f.loc())
        else:
            ctx.violation("c08.chain", key, "U precedence is %s with default %s, expected [override, computed] then 5.7" % (sorted(chains), sorted(consts)), f.loc())
    # D4 decision tables
    ec = local_defs(root, "element_case")
    ctx.require(len(ec) == 1, "KData::from: element_case not found")
    l, defs = next(iter(ec.items()))
    blocks = {b: n for b, n, ln in defs}
    start = TB.common_dominator(f.body, list(blocks))
    for bnd, tl in itertools.product(bt, tilts):
        at = TB.Atoms({"bounds": bnd, "tilt": tl}, {"bounds": bt, "tilt": tilts})
        r = TB.walk_decision(root, start, at.value, set(blocks))
        key = "c08.category|%s,%s" % (bnd, tl)
        if not isinstance(r, int):
            raise AnalysisError("KData::from: cannot resolve the category of (%s, %s): %s" % (bnd, tl, str(r)[:200]))
        got = (leaf_name(blocks[r]) or "").split(".")[-1]
        want = CATS["GROUND"] if bnd == "GROUND" else CATS[tl]
        if got == want:
            ctx.ok("c08.category", key, "-> %s" % got, f.loc())
        else:
            ctx.violation("c08.category", key, "element with bounds %s and tilt %s is accumulated under `%s`, expected `%s`" % (bnd, tl, got, want), f.loc())
    tc = local_defs(root, "tb_case")
    ctx.require(len(tc) == 1, "KData::from: tb_case not found")
    l, defs = next(iter(tc.items()))
    blocks = {b: n for b, n, ln in defs}
    start = TB.common_dominator(f.body, list(blocks))
    seen = {}
    for kd in kinds:
        at = TB.Atoms({"kind": kd}, {"kind": kinds})
        r = TB.walk_decision(root, start, at.value, set(blocks))
        key = "c08.bridge|%s" % kd
        if not isinstance(r, int):
            raise AnalysisError("KData::from: cannot resolve the accumulator of bridge kind %s: %s" % (kd, str(r)[:200]))
        got = (leaf_name(blocks[r]) or "").split(".")[-1]
        if got.replace("_", "").lower() == kd.lower() and got not in seen.values():
            ctx.ok("c08.bridge", key, "-> tbs.%s" % got, f.loc())
        else:
            ctx.violation("c08.bridge", key, "bridge kind %s is accumulated under tbs.%s" % (kd, got), f.loc())
        seen[kd] = got
    # D5 totals
    lmT = LeafMap({}, [(r"^k\.(\w+(\.\w+)*)$", None)])

    def total(dest, want_terms):
        us = [u for u in byd.get(dest, []) if u["op"] == "="]
        key = "c08.total|%s" % dest
        if len(us) != 1:
            ctx.violation("c08.total", key, "expected one assignment of %s, found %d" % (dest, len(us)), f.loc())
            return
        terms = sorted(leaf_name(x) for x in walk(us[0]["term"]) if x[0] == "proj" and leaf_name(x))
        adds_only = all(x[1] == "Add" for x in walk(us[0]["term"]) if x[0] == "bin")
        if terms == sorted(want_terms) and adds_only:
            ctx.ok("c08.total", key, "= " + " + ".join(want_terms), f.loc(us[0]["line"]))
        else:
            ctx.violation("c08.total", key, "sums %s, expected exactly %s" % (terms, sorted(want_terms)), f.loc(us[0]["line"]))
    total("k.summary.opaques_a", ["k.%s.a" % c for c in ("roofs", "floors", "walls", "ground")])
    total("k.summary.opaques_au", ["k.%s.au" % c for c in ("roofs", "floors", "walls", "ground")])
    bnames = sorted(set(seen.values()))
    total("k.summary.tbs_l", ["k.tbs.%s.l" % b for b in bnames])
    total("k.summary.tbs_psil", ["k.tbs.%s.psil" % b for b in bnames])
    total("k.summary.windows_a", ["k.windows.a"])
    total("k.summary.windows_au", ["k.windows.au"])
    total("k.summary.a", ["k.summary.opaques_a", "k.summary.windows_a"])
    total("k.summary.au", ["k.summary.opaques_au", "k.summary.windows_au", "k.summary.tbs_psil"])
    # K guarded
    kk = [u for u in ups if u["dest"] == "k.K"]
    okk = False
    if len(kk) == 1 and kk[0]["term"][0] == "var":
        vdefs = [u for u in ups if u["dest"] == kk[0]["term"][2]]
        body = f.body
        l = kk[0]["term"][1]
        vals = []
        for d in body.defs().get(l, []):
            if d[0] == "st":
                n = strip(root.rvalue(d[3]["rv"]))
                conds = [(strip(c), bool_taken(tk)) for (_, dd, c, tk) in root.conditions(d[1])]
                vals.append((n, conds))
        z = [v for v in vals if v[0][0] == "k" and float(v[0][1]) == 0.0]
        q = [v for v in vals if v[0][0] == "bin" and v[0][1] == "Div"]
        if len(z) == 1 and len(q) == 1:
            num, den = leaf_name(strip(q[0][0][2])), leaf_name(strip(q[0][0][3]))
            g = [(leaf_name(strip(c[2])), c[1], strip(c[3])[1], v) for c, v in q[0][1] if c[0] == "bin"]
            okk = num == "k.summary.au" and den == "k.summary.a" and any(x[0] == "k.summary.a" and x[1] == "Lt" and float(x[2]) > 0 and x[3] is False for x in g)
    if okk:
        ctx.ok("c08.total", "c08.total|K", "K = au / a, 0 when a < 0.01", f.loc())
    else:
        ctx.violation("c08.total", "c08.total|K", "K is not `if a < 0.01 {0} else {au / a}`", f.loc())
    for c in ("windows", "ground", "roofs", "floors", "walls"):
        us = byd.get("k.%s.u_mean" % c, [])
        key = "c08.total|%s.u_mean" % c
        okm = False
        if len(us) == 1:
            t = strip(us[0]["term"])
            if t[0] == "agg" and t[1].endswith("Some"):
                q = strip(t[3][0])
                okm = q[0] == "bin" and q[1] == "Div" and leaf_name(strip(q[2])) == "k.%s.au" % c and leaf_name(strip(q[3])) == "k.%s.a" % c and \
                    any(g[0] == "k.%s.a" % c and g[1] == "Gt" and g[3] is True for g in guard_of(us[0]))
        if okm:
            ctx.ok("c08.total", key, "u_mean = au / a under its own a > 0.001", f.loc(us[0]["line"]))
        else:
            ctx.violation("c08.total", key, "u_mean of %s is not au/a guarded by its own area" % c, f.loc())
    # provenance in EnergyProps::from
    ep = prog.method("energy::props::EnergyProps", "convert::From", "from")
    check_override_passthrough(ctx, "c08.chain", prog, ep, "WallProps", "u_value_override", "walls", "u_value")
    check_override_passthrough(ctx, "c08.chain", prog, ep, "WinProps", "u_value_override", "windows", "u_value")
    esc = Scope(prog, ep)
    wl = [(sc, sc.rvalue(s["rv"]), s.get("ln")) for sc in esc.all_scopes() for b, i, s in sc.body.statements()
          if s["s"] == "assign" and s["rv"]["r"] == "agg" and s["rv"].get("adt", "").endswith("props::WallProps")]
    ctx.require(len(wl) == 1, "WallProps literal not found")
    sc, n, ln = wl[0]
    fl = dict(zip(n[2], n[3]))
    an = origin_desc(strip(fl["area_net"]))
    mnode = strip(fl["multiplier"])
    mu = []
    if mnode[0] == "call" and short_callee(mnode[1]) == "map_or" and len(mnode[2]) == 3:
        from ..exprs import mkproj
        r = closure_return(prog, sc, mnode[2][2], mkproj(strip(mnode[2][0]), ("@Some", ".0")))
        mu = [origin_desc(r) if r else "?", origin_desc(strip(mnode[2][1]))]
    if "area_net(model.walls[],model.windows)" in an:
        ctx.ok("c08.prov", "c08.prov|WallProps.area_net", "area_net = Wall::area_net(&model.windows)", ep.loc(ln))
    else:
        ctx.violation("c08.prov", "c08.prov|WallProps.area_net", "area_net is %s, expected the wall's net area" % an, ep.loc(ln))
    if len(mu) == 2 and mu[0].endswith(".multiplier") and "get(spaces,model.walls[].space)" in mu[0] and mu[1] == "1.0":
        ctx.ok("c08.prov", "c08.prov|WallProps.multiplier", "multiplier = multiplier of the wall's space (1 when missing)", ep.loc(ln))
    else:
        ctx.violation("c08.prov", "c08.prov|WallProps.multiplier", "multiplier is %s" % mu, ep.loc(ln))
    # net area: gross area minus *all* the windows of the wall, wherever they are in the window list (K must not depend on element order)
    an_f = prog.method("types::opaques::Wall", None, "area_net")
    asc = Scope(prog, an_f)
    rns_ = returned_nodes(an_f.body)
    ctx.require(len(rns_) == 1, "Wall::area_net: one return expression expected")
    rn_ = strip(asc._rw(rns_[0][1]))
    oka = False
    why = show(rn_)[:120]
    if rn_[0] == "call" and short_callee(rn_[1]) == "fround2" and strip(rn_[2][0])[0] == "bin" and strip(rn_[2][0])[1] == "Sub":
        sub = strip(rn_[2][0])
        gross, wins = strip(sub[2]), strip(sub[3])
        if gross[0] == "call" and short_callee(gross[1]) == "area" and leaf_name(strip(gross[2][0])) == "self" and wins[0] == "call" and short_callee(wins[1]) == "sum":
            from ..cfgq import inline_helper, iter_chain, closure_id_of, closure_env
            ch_ = iter_chain(strip(wins[2][0]))
            steps = list(ch_.steps)
            src_ = strip(ch_.source)
            for _ in range(3):
                if src_[0] == "call":
                    inl_ = inline_helper(prog, src_)
                    if inl_ is None:
                        break
                    c2 = iter_chain(strip(inl_))
                    steps = list(c2.steps) + steps
                    src_ = strip(c2.source)
                else:
                    break
            names_ = [a for a, _ in steps]
            order_dep = [a for a in names_ if a in ("skip_while", "take_while", "skip", "take", "step_by", "rev", "find", "position")]
            filters = [c for a, c in steps if a == "filter"]
            maps = [c for a, c in steps if a == "map"]
            if order_dep:
                why = "the windows of a wall are taken from the list with %s: only a contiguous run is subtracted, so windows of the same wall that are stored apart " \
                      "are counted both as windows and as opaque area (K changes when the window list is reordered)" % order_dep
            elif leaf_name(src_) == "windows" and len(filters) == 1 and len(maps) == 1:
                fsc = Scope(prog, prog.fns[closure_id_of(strip(filters[0]))], closure_env(strip(filters[0])), ("elem", "windows", ()), asc) if closure_id_of(strip(filters[0])) in prog.fns else None
                pr = origin_desc(strip(fsc._rw(returned_nodes(fsc.body)[0][1]))) if fsc is not None and len(returned_nodes(fsc.body)) == 1 else ""
                mp = strip(maps[0])
                from ..cfgq import fn_item_of
                mname = short_callee(fn_item_of(mp) or "") or "closure"
                if "eq(" in pr and "windows[].wall" in pr and "self.id" in pr and mname in ("area", "closure"):
                    oka = True
                else:
                    why = "windows are selected by `%s` and mapped with %s" % (pr[:60], mname)
    if oka:
        ctx.ok("c08.prov", "c08.prov|Wall::area_net", "area_net = round2(area - sum of Window::area over every window with w.wall == self.id, in any list order)", an_f.loc())
    else:
        ctx.violation("c08.prov", "c08.prov|Wall::area_net", "Wall::area_net: %s" % why, an_f.loc())
    # the `is_tenv` K filters on is the envelope membership of the statement (same truth table as C11-D2, evaluated here for K's sake)
    from .c11 import check_envelope_membership
    check_envelope_membership(ctx, prog, ep, esc, rule="c08.scope")
    # D6 no names in EnergyProps
    ea = prog.adt("bemodel::energy::props::EnergyProps")
    wseen, ext, fields = T.closure(prog, [ea["id"]])
    named = [(a["path"].split("::")[-1], fd["name"]) for (a, v, fd) in fields if fd["name"] == "name" or (fd["ty"] == "std::string::String")]
    if named:
        ctx.violation("c08.names", "c08.names|EnergyProps", "EnergyProps carries element names %s: K could depend on renaming" % named[:4], None)
    else:
        ctx.ok("c08.names", "c08.names|EnergyProps", "no String/name field among %d fields of %d types: K cannot depend on names" % (len(fields), len(wseen)), None)
    ctx.floor("c08.term", "accumulator updates", nacc, 6)


def run_fixture(ctx):
    prog = ctx.prog
    f = prog.fn_by_path("poscontrol::c08_scope")
    root = Scope(prog, f)
    filt = [ch for (b, t, ch) in root.children() if ch.via[0] == "filter"]
    bt = ["EXTERIOR", "INTERIOR", "GROUND", "ADIABATIC"]
    scope_table(ctx, "c08.scope", "fixture", filt[0], ["is_tenv", "bounds"], {"bounds": bt}, lambda a: a["is_tenv"] and a["bounds"] in ("EXTERIOR", "GROUND"), f.loc())
