"""C20 - Solar geometry, radiation identities, embedded climate tables (partial: tables, names, day numbers, structural facts)."""
from fractions import Fraction

from ..cfgq import Scope, returned_nodes
from ..exprs import ExprBuilder, strip, short_callee, show, leaf_name, walk, Normalizer
from ..facts import AnalysisError
from ..mir import callee_name
from .. import tables as TB

ID = "C20"
LEVEL = "other"
RULE_TEXT = ("every key and literal of the three embedded climate tables read from the initialiser MIR; the name tables of ClimateZone and Orientation; "
             "the domain and value expression of nday_from_md; normalised forms of the structural radiation identities")
EXPLANATION = ("D1 tables exist for every zone and orientation, vectors have 12 entries, every radiation literal is >= 0, July diffuse > 0, dates/altitudes in range, "
               "MetInfo.zc equals its key; D2 ClimateZone Display/TryFrom and Orientation names agree with each other and with climate's lists; "
               "D3 nday_from_md accepts every calendar date and returns cumulative MONTH_DAYS + day; D4 I_dir = max(0, .), the two I_dif_tot copies agree, "
               "I_dif_grnd has the form from which 'downward surface receives albedo x global horizontal' follows, clearness thresholds increase")
DECIDED = ["D1 embedded tables complete and non-negative", "D2 zone and orientation names agree", "D3 day numbers (domain and formula)", "D4 structural radiation facts, incidence angle formula (eq. 17) and its wiring", "D5 sun altitude and azimuth formulas agree with spherical astronomy (normalised comparison, 8 quadrant sign cases incl. sun due east/west)",
           "D6 every argument of an inverse sine/cosine in the solar model is a sine/cosine or clamped to [-1, 1]",
           "D7 every entry of MONTHLYRADDATA and of climate::ORIENTATIONS is named after the class Orientation::from gives its own azimuth (no mirrored facade)"]
UNDECIDED = ["floating-point error of the sun position near the horizon", "horizontal-surface conservation", "the numbers of the tables = model(zonaD3.met) to table precision (only their labelling is decided)"]
ASSUMPTIONS = ["the vec!/HashMap::insert lowering of this toolchain (recognised structurally; a change makes the check exit 2, not pass)"]
LEVEL_TEXT = ("Partial: the table/name/day-number clauses and four structural identities are decided exhaustively from the program text as compiled (every one of the "
              "~9000 literals is read from MIR and checked; key sets are compared with the enum's variants). The numeric core - solar geometry against spherical "
              "astronomy, agreement of the tables with the radiation model - is NOT decided by this family.")
LEVEL_NOTE = "Trusted: rustc MIR constant evaluation; the structural recogniser of vec! literals."
TECHNIQUE = "literal/decision-table extraction from MIR + normalised-expression comparison (incl. sun position with trigonometric identities, 8 sign cases) + inverse-trig domain rule (argument is a sine/cosine or clamped) + sibling cross-check of the table labels against the model's own azimuth classifier + argument-role agreement on f32 angle parameters"
FIXTURE_EXPECT = ["c20.names"]


def enum_variants(prog, suffix):
    a = prog.adt(suffix)
    return [v["name"] for v in a["variants"]]


def inserts(prog, closure_fn):
    """(key node, value node, line) for every HashMap::insert in a Lazy initialiser closure"""
    eb = ExprBuilder(closure_fn.body, max_nodes=10 ** 7)
    out = []
    for b, t in closure_fn.body.calls():
        nm = callee_name(t) or ""
        if short_callee(nm) == "insert" and "HashMap" in nm:
            out.append((strip(eb.operand(t["args"][1])), strip(eb.operand(t["args"][2])), t.get("ln")))
    return out, eb


def num(n):
    v = TB.const_eval(n)
    if v is None:
        raise AnalysisError("non-constant table entry: %s" % show(n)[:80])
    return v


def lazy_closure(prog, static_path):
    st = [f for f in prog.fns.values() if f.kind == "static" and f.path == static_path]
    if len(st) != 1:
        raise AnalysisError("static %s not found" % static_path)
    cl = [f for f in prog.closures_of(st[0])]
    if len(cl) != 1:
        raise AnalysisError("initialiser closure of %s not found" % static_path)
    return st[0], cl[0]


def run(ctx):
    prog = ctx.prog
    zones = enum_variants(prog, "bemodel::climatedata::climatezone::ClimateZone")
    orients = enum_variants(prog, "bemodel::types::common::Orientation")
    ctx.require(len(zones) == 32 and len(orients) == 9, "ClimateZone/Orientation variant counts changed (%d, %d)" % (len(zones), len(orients)))

    # ---------------- D1 CLIMATEMETADATA
    st, cl = lazy_closure(prog, "bemodel::climatedata::zonesmeta::CLIMATEMETADATA")
    ins, _ = inserts(prog, cl)
    keys = [TB.variant_of(k) for k, v, ln in ins]
    check_keyset(ctx, "c20.meta", "CLIMATEMETADATA", keys, zones, st)
    for k, v, ln in ins:
        kz = TB.variant_of(k)
        key = "c20.meta|zc|%s" % kz
        if v[0] == "agg" and "zc" in v[2]:
            z = TB.variant_of(v[3][v[2].index("zc")])
            lat = TB.const_eval(v[3][v[2].index("latitude")])
            if z != kz:
                ctx.violation("c20.meta", key, "MetInfo.zc = %s stored under key %s" % (z, kz), cl.loc(ln))
            elif lat is None or not (Fraction(27) <= lat <= Fraction(44)):
                ctx.violation("c20.meta", key, "latitude %s outside Spain's range" % lat, cl.loc(ln))
            else:
                ctx.ok("c20.meta", key, "zc = key, latitude %.2f" % float(lat), cl.loc(ln))
        else:
            ctx.violation("c20.meta", key, "value is not a MetInfo literal", cl.loc(ln))

    # ---------------- D1 JULYRADDATA
    st, cl = lazy_closure(prog, "bemodel::climatedata::hourlyraddata::JULYRADDATA")
    ins, _ = inserts(prog, cl)
    keys = [TB.variant_of(k) for k, v, ln in ins]
    check_keyset(ctx, "c20.july", "JULYRADDATA", keys, zones, st)
    nrows = 0
    nlit = 0
    for k, v, ln in ins:
        kz = TB.variant_of(k)
        key = "c20.july|rows|%s" % kz
        if not (v[0] == "agg" and v[1] == "vec"):
            ctx.violation("c20.july", key, "value is not a vec! literal of RadData rows", cl.loc(ln))
            continue
        probs = []
        if len(v[3]) < 1:
            probs.append("no rows")
        for r in v[3]:
            r = strip(r)
            nrows += 1
            f = dict(zip(r[2], r[3]))
            vals = {n_: num(f[n_]) for n_ in ("month", "day", "hour", "azimuth", "altitude", "dir", "dif")}
            nlit += 7
            if not (1 <= vals["month"] <= 12 and 1 <= vals["day"] <= 31):
                probs.append("date %s/%s out of range" % (vals["day"], vals["month"]))
            if vals["dir"] < 0:
                probs.append("negative beam value %s" % vals["dir"])
            if vals["dif"] <= 0:
                probs.append("diffuse value %s <= 0 (the per-hour obstruction weight divides by beam + diffuse)" % vals["dif"])
            if not (0 <= vals["altitude"] <= 90):
                probs.append("solar altitude %s outside [0, 90]" % float(vals["altitude"]))
            if not (-180 <= vals["azimuth"] <= 180):
                probs.append("azimuth %s outside [-180, 180]" % float(vals["azimuth"]))
            if not (0 <= vals["hour"] <= 24):
                probs.append("hour %s" % vals["hour"])
        if probs:
            ctx.violation("c20.july", key, "; ".join(sorted(set(probs))[:4]), cl.loc(ln))
        else:
            ctx.ok("c20.july", key, "%d rows, all beam >= 0, diffuse > 0, dates and angles in range" % len(v[3]), cl.loc(ln))
    ctx.floor("c20.july", "July rows", nrows, 448)

    # ---------------- D1 MONTHLYRADDATA
    st, cl = lazy_closure(prog, "bemodel::climatedata::monthlyraddata::MONTHLYRADDATA")
    eb = ExprBuilder(cl.body, max_nodes=10 ** 7)
    rows = []
    for b, i, s in cl.body.statements():
        if s["s"] == "assign" and s["rv"]["r"] == "agg" and s["rv"].get("adt", "").endswith("SurfaceMonthlyRadiation"):
            rows.append((eb.rvalue(s["rv"]), s.get("ln")))
    pairs = {}
    for r, ln in rows:
        f = dict(zip(r[2], r[3]))
        z, o = TB.variant_of(f["zone"]), TB.variant_of(f["orientation"])
        pairs.setdefault((z, o), []).append(ln)
        key = "c20.monthly|%s|%s" % (z, o)
        if len(pairs[(z, o)]) > 1:
            continue
        probs = []
        for vn in ("dir", "dif", "f_shwith200", "f_shwith300", "f_shwith500"):
            v = strip(f[vn])
            if not (v[0] == "agg" and v[1] == "vec"):
                probs.append("%s is not a vec! literal" % vn)
                continue
            if len(v[3]) != 12:
                probs.append("%s has %d entries, expected 12 (index 6 = July is read)" % (vn, len(v[3])))
            for x in v[3]:
                nlit += 1
                if num(x) < 0:
                    probs.append("negative value %s in %s" % (num(x), vn))
        if probs:
            ctx.violation("c20.monthly", key, "; ".join(probs[:3]), cl.loc(ln))
        else:
            ctx.ok("c20.monthly", key, "5 vectors of 12 non-negative values", cl.loc(ln))
    want = {(z, o) for z in zones for o in orients}
    have = set(pairs)
    dup = sorted(k for k, v in pairs.items() if len(v) > 1)
    if have == want and not dup and len(rows) == 288:
        ctx.ok("c20.monthly", "c20.monthly|keyset", "exactly the 32 x 9 (zone, orientation) pairs, each once", st.loc())
    else:
        ctx.violation("c20.monthly", "c20.monthly|keyset", "missing %s duplicate %s extra %s (a missing pair makes the q_sol;jul lookup panic)"
                      % (sorted(want - have)[:4], dup[:4], sorted(have - want)[:4]), st.loc())
    # all rows are inside the vec the static holds
    outer = None
    for b, t in cl.body.calls():
        if (callee_name(t) or "").endswith("Mutex::<T>::new"):
            outer = strip(eb.operand(t["args"][0]))
    if outer is not None and outer[0] == "agg" and outer[1] == "vec" and len(outer[3]) == len(rows):
        ctx.ok("c20.monthly", "c20.monthly|held", "the Mutex holds the vec! of all %d rows" % len(rows), st.loc())
    else:
        ctx.violation("c20.monthly", "c20.monthly|held", "the value placed in the Mutex is not the vec! of all %d rows" % len(rows), st.loc())
    check_azimuth_labels(ctx, prog, rows, cl)
    ctx.floor("c20", "literals checked", nlit, 8000)
    ctx.extra_cov["literals_checked"] = nlit

    # ---------------- D2 names
    check_names(ctx, prog, zones, orients)
    # ---------------- D3
    check_nday(ctx, prog)
    # ---------------- D4
    check_radiation(ctx, prog)
    check_sun_position(ctx, prog)
    check_argument_roles(ctx, prog)


def check_keyset(ctx, rule, label, keys, variants, st):
    dup = sorted({k for k in keys if keys.count(k) > 1})
    missing = sorted(set(variants) - set(keys))
    extra = sorted(set(keys) - set(variants))
    key = "%s|keyset" % rule
    if not dup and not missing and not extra:
        ctx.ok(rule, key, "%s has exactly the %d zone keys, each inserted once" % (label, len(variants)), st.loc())
    else:
        ctx.violation(rule, key, "%s keys: missing %s, inserted twice %s, unknown %s (a missing zone makes the lookup panic or the computation silently empty)"
                      % (label, missing, dup, extra), st.loc())


def check_names(ctx, prog, zones, orients, rule="c20.names"):
    # ClimateZone Display: discriminant -> literal
    disp = prog.method("climatedata::climatezone::ClimateZone", "fmt::Display", "fmt")
    tabs = TB.discr_table(disp)
    ctx.require(len(tabs) == 1, "ClimateZone Display: expected one discriminant switch")
    d2s = {}
    for v, node in tabs[0][1].items():
        if v == "else":
            continue
        name = TB.variant_of(node) if node else None
        d2s[zones[int(v)]] = name
    tf = prog.method("climatedata::climatezone::ClimateZone", "TryFrom", "try_from")
    s2v = {}
    for lit, val, ln in TB.str_match_table(tf):
        s2v[lit] = TB.variant_of(val) if val else None
    ctx.floor(rule, "ClimateZone TryFrom literals", len(s2v), 32)
    cte = const_array_strings(prog, "climate::CTE_CLIMATEZONES")
    for z in zones:
        key = "%s|zone|%s" % (rule, z)
        shown = d2s.get(z)
        probs = []
        if shown is None:
            probs.append("Display has no arm")
        elif s2v.get(shown) != z:
            probs.append("Display prints %r which TryFrom maps to %s" % (shown, s2v.get(shown)))
        if shown != z:
            probs.append("Display prints %r for %s" % (shown, z))
        if cte is not None and z not in cte:
            probs.append("missing from climate::CTE_CLIMATEZONES")
        if probs:
            ctx.violation(rule, key, "; ".join(probs), disp.loc())
        else:
            ctx.ok(rule, key, "Display <-> TryFrom <-> CTE_CLIMATEZONES agree on %r" % z, disp.loc())
    for lit, v in sorted(s2v.items()):
        if lit not in zones:
            key = "%s|alias|%s" % (rule, lit)
            if v in zones and lit.lower() == v.lower():
                ctx.ok(rule, key, "alias %r -> %s" % (lit, v), tf.loc())
            else:
                ctx.violation(rule, key, "literal %r maps to %s" % (lit, v), tf.loc())
    if cte is not None and (len(cte) != 32 or set(cte) != set(zones)):
        ctx.violation(rule, "%s|cte_list" % rule, "climate::CTE_CLIMATEZONES differs from the ClimateZone variants: %s" % sorted(set(cte) ^ set(zones)), None)
    # Orientation: climate::ORIENTATIONS names accepted by From<&str>, bijective onto the 9 variants
    of = prog.method("types::common::Orientation", "convert::From", "from", inputs_contains="&str")
    o_s2v = {lit: (TB.variant_of(val) if val else None) for lit, val, ln in TB.str_match_table(of)}
    odisp = prog.method("types::common::Orientation", "fmt::Display", "fmt")
    otabs = TB.discr_table(odisp)
    o_d2s = {}
    for v, node in otabs[0][1].items():
        if v != "else":
            o_d2s[orients[int(v)]] = TB.variant_of(node) if node else None
    onames = const_array_strings(prog, "climate::ORIENTATIONS")
    ctx.require(onames is not None and len(onames) == 9, "climate::ORIENTATIONS not readable")
    default_v = "S"
    got = {}
    for nme in onames:
        v = o_s2v.get(nme, default_v if nme == "S" else None)
        key = "%s|orientation|%s" % (rule, nme)
        if v is None:
            ctx.violation(rule, key, "name %r of climate::ORIENTATIONS is not accepted by Orientation::from(&str) (falls to the default S)" % nme, of.loc())
        else:
            got[nme] = v
            if o_d2s.get(v) not in (nme,):
                ctx.violation(rule, key, "Orientation::%s displays as %r, list says %r" % (v, o_d2s.get(v), nme), odisp.loc())
            else:
                ctx.ok(rule, key, "%r <-> Orientation::%s" % (nme, v), of.loc())
    if sorted(got.values()) != sorted(orients):
        ctx.violation(rule, "%s|orientation|bijection" % rule, "names map onto %s, expected each of the 9 variants once" % sorted(got.values()), of.loc())
    else:
        ctx.ok(rule, "%s|orientation|bijection" % rule, "the 9 names map bijectively onto the 9 variants", of.loc())


def const_array_tuples(prog, path):
    """the entries of a const array of tuples as lists of constants (numbers as Fraction, strings as str)"""
    c = [f for f in prog.fns.values() if f.kind == "const" and f.path == path]
    if len(c) != 1:
        return None, None
    eb = ExprBuilder(c[0].body)
    for b, i, s_ in c[0].body.statements():
        if s_["s"] == "assign" and s_["rv"]["r"] == "agg" and s_["rv"]["ak"] == "array":
            n = eb.rvalue(s_["rv"])
            out = []
            for o in n[3]:
                o = strip(o)
                if not (o[0] == "agg" and o[3]):
                    return None, c[0]
                row = []
                for x in o[3]:
                    ss = [y[1] for y in walk(strip(x)) if y[0] == "s"]
                    row.append(ss[-1] if ss else TB.const_eval(x))
                out.append(row)
            return out, c[0]
    return None, c[0]


def check_azimuth_labels(ctx, prog, rows, cl, rule="c20.azimuth"):
    """"for every ... orientation class the embedded ... monthly tables ... equal what the radiation model computes": a table entry is looked up by the
    Orientation that `Orientation::from(azimuth)` gives to a wall's azimuth, and its numbers are those of the radiation model for the surface azimuth
    (`gamma`) stored in the entry - the same angle convention (from the south, east positive: climate::solar's `surf_azimuth`, fed with the very wall
    azimuth the classifier gets).  So the name an entry carries has to be the class of its own gamma, for the embedded table and for the list
    (climate::ORIENTATIONS) a new table is generated from; otherwise a facade gets the irradiation of the mirrored one."""
    of = prog.method("types::common::Orientation", "convert::From", "from", inputs_contains="f32")
    chain, default = TB.threshold_chain(of)
    tree = len(chain) < 8       # not a flat chain: the class of an azimuth is read by walking the decision tree (tables.classify_by_walk)
    if tree:
        ctx.require(TB.classify_by_walk(prog, of, Fraction(0)) is not None, "Orientation::from(f32): neither a flat chain of sector comparisons (%d comparisons) nor an evaluable decision tree" % len(chain))
    for (op, c, r, lhs, ln) in ([] if tree else chain):
        l = strip(lhs)
        ctx.require(l[0] == "call" and short_callee(l[1]) == "normalize" and [strip(a)[1] for a in l[2][1:] if strip(a)[0] == "k"] == ["0.0", "360.0"],
                    "Orientation::from(f32) does not compare normalize(azimuth, 0, 360): the class of a table's gamma cannot be evaluated")

    def cls(az):
        if tree:
            return TB.classify_by_walk(prog, of, Fraction(az))
        return TB.classify_by_chain(chain, default, Fraction(az) % 360)
    # the embedded table
    per = {}
    for r, ln in rows:
        f = dict(zip(r[2], r[3]))
        z, o = TB.variant_of(f["zone"]), TB.variant_of(f["orientation"])
        beta, gamma = num(f["beta"]), num(f["gamma"])
        want = "HZ" if beta == 0 else cls(gamma)
        d = per.setdefault(o, {"n": 0, "bad": [], "ln": ln})
        d["n"] += 1
        if want != o:
            d["bad"].append((z, float(beta), float(gamma), want))
    ctx.floor(rule, "table entries classified", sum(d["n"] for d in per.values()), 288)
    for o, d in sorted(per.items()):
        key = "%s|monthly|%s" % (rule, o)
        if d["bad"]:
            z, b, g, w = d["bad"][0]
            ctx.violation(rule, key, "%d of the %d entries labelled %s hold the radiation of a surface of class %s (e.g. zone %s: tilt %s, azimuth %s, which "
                          "Orientation::from puts in %s): windows of class %s get the irradiation of the mirrored facade"
                          % (len(d["bad"]), d["n"], o, w, z, b, g, w, o), cl.loc(d["ln"]))
        else:
            ctx.ok(rule, key, "all %d entries labelled %s store an azimuth of that class" % (d["n"], o), cl.loc(d["ln"]))
    # the list a new table is generated from (climate::met_monthly_data)
    ents, cf = const_array_tuples(prog, "climate::ORIENTATIONS")
    ctx.require(ents is not None and len(ents) == 9 and all(len(e) == 3 and isinstance(e[2], str) for e in ents), "climate::ORIENTATIONS not readable as (tilt, azimuth, name)")
    sf = prog.method("types::common::Orientation", "convert::From", "from", inputs_contains="&str")
    s2v = {lit: (TB.variant_of(val) if val else None) for lit, val, ln in TB.str_match_table(sf)}
    for tilt, az, nme in ents:
        key = "%s|list|%s" % (rule, nme)
        named = s2v.get(nme, "S" if nme == "S" else None)
        want = "HZ" if tilt == 0 else cls(az)
        if named is None:
            continue       # reported by c20.names
        if named != want:
            ctx.violation(rule, key, "climate::ORIENTATIONS calls the surface (tilt %s, azimuth %s) %r, the model's classifier puts that azimuth in %s: "
                          "met_monthly_data generates the %r table from the mirrored facade" % (float(tilt), float(az), nme, want, nme), cf.loc())
        else:
            ctx.ok(rule, key, "(tilt %s, azimuth %s) is %r for the model's classifier too" % (float(tilt), float(az), nme), cf.loc())


def const_array_strings(prog, path):
    c = [f for f in prog.fns.values() if f.kind == "const" and f.path == path]
    if len(c) != 1:
        return None
    eb = ExprBuilder(c[0].body)
    out = []
    for b, i, s in c[0].body.statements():
        if s["s"] == "assign" and s["rv"]["r"] == "agg" and s["rv"]["ak"] == "array":
            n = eb.rvalue(s["rv"])
            for o in n[3]:
                o = strip(o)
                strs = [x[1] for x in walk(o) if x[0] == "s"]
                if strs:
                    out.append(strs[-1])
    return out or None


def const_array_numbers(prog, path):
    c = [f for f in prog.fns.values() if f.kind == "const" and f.path == path]
    if len(c) != 1:
        return None
    eb = ExprBuilder(c[0].body)
    for b, i, s in c[0].body.statements():
        if s["s"] == "assign" and s["rv"]["r"] == "agg" and s["rv"]["ak"] == "array":
            n = eb.rvalue(s["rv"])
            return [TB.const_eval(o) for o in n[3]]
    return None


def check_nday(ctx, prog, rule="c20.nday"):
    fn = prog.find("climate::solar::nday_from_md")
    md = const_array_numbers(prog, "climate::MONTH_DAYS")
    ctx.require(md is not None and len(md) == 12, "climate::MONTH_DAYS not readable")
    if md == [31, 28, 31, 30, 31, 30, 31, 31, 30, 31, 30, 31]:
        ctx.ok(rule, rule + "|month_days", "MONTH_DAYS is the non-leap calendar (sum 365)", fn.loc())
    else:
        ctx.violation(rule, rule + "|month_days", "MONTH_DAYS = %s" % md, fn.loc())
    sc = Scope(prog, fn)
    body = fn.body
    # domain: every RangeInclusive::contains / comparison on month and day in the assert condition
    ranges = {}
    for b, t in body.calls():
        nm = callee_name(t) or ""
        if short_callee(nm) == "contains" and "RangeInclusive" in nm:
            r = strip(sc.operand(t["args"][0]))
            x = leaf_name(strip(sc.operand(t["args"][1])))
            lo = hi = None
            for y in walk(r):
                if y[0] == "call" and short_callee(y[1]) == "new" and len(y[2]) == 2:
                    lo, hi = TB.const_eval(y[2][0]), TB.const_eval(y[2][1])
            ranges[x] = (lo, hi)
    cmps = []
    for b in range(body.n):
        t = body.blocks[b]["term"]
        if t["t"] == "switch":
            n = strip(sc.operand(t["d"]))
            if n[0] == "bin" and n[1] in ("Lt", "Le", "Gt", "Ge") and strip(n[3])[0] == "k":
                cmps.append((leaf_name(strip(n[2])), n[1], int(strip(n[3])[1])))
    for var, need in (("month", 12), ("day", max(int(x) for x in md))):
        key = "%s|domain|%s" % (rule, var)
        okd = False
        why = "no bound found"
        if var in ranges and ranges[var][0] is not None:
            lo, hi = ranges[var]
            okd = lo <= 1 and hi >= need
            why = "accepts %s..=%s" % (lo, hi)
        for (v, op, c) in cmps:
            if v == var:
                mx = c - 1 if op == "Lt" else c
                okd = mx >= need
                why = "accepts %s %s %d" % (var, op, c)
        if okd:
            ctx.ok(rule, key, why, fn.loc())
        else:
            ctx.violation(rule, key, "%s: the accepted domain must contain every calendar %s up to %d" % (why, var, need), fn.loc())
    # value: the returned expression is evaluated exactly for all 365 (month, day) pairs against the calendar (however the partial sum is written:
    # MONTH_DAYS[..month-1].iter().sum(), .iter().take(month-1).sum(), ...)
    from .c17 import eval_num
    rns = returned_nodes(body)
    mdays = [int(x) for x in md]
    wrong = None
    undec = None
    if len(rns) != 1:
        undec = "%d return expressions" % len(rns)
    else:
        n = strip(sc._rw(rns[0][1]))
        cum = 0
        for m_, nd_ in enumerate(mdays, 1):
            for d_ in range(1, nd_ + 1):
                v = eval_num(n, {"month": Fraction(m_), "day": Fraction(d_), "__prog": prog})
                if v is None:
                    undec = show(n)[:120]
                    break
                if v != cum + d_ and wrong is None:
                    wrong = (m_, d_, v, cum + d_)
            if undec:
                break
            cum += nd_
    if undec:
        raise AnalysisError("nday_from_md: cannot evaluate the returned expression (%s)" % undec)
    if wrong is None:
        ctx.ok(rule, rule + "|value", "the returned expression equals the day of the year for all 365 (month, day) pairs", fn.loc())
    else:
        ctx.violation(rule, rule + "|value", "for month %d, day %d the function returns %s; the calendar gives %d" % wrong, fn.loc())


def norm_of(prog, fn, leafmap, callmap=None):
    sc = Scope(prog, fn)
    rns = returned_nodes(fn.body)
    if len(rns) != 1:
        raise AnalysisError("%s: expected one return expression" % fn.path)
    nz = TrigNormalizer(leafmap, callmap or {})
    from ..cfgq import inline_all
    from ..formulas import VOCAB
    node = strip(sc._rw(rns[0][1]))
    try:
        return nz, nz.code(node)
    except AnalysisError:
        # written through small helpers or helper structs (`SinCos::of(x).sin`): read with those in place
        nz = TrigNormalizer(leafmap, callmap or {})
        return nz, nz.code(strip(inline_all(prog, node, keep=set(callmap or {}))))


class TrigNormalizer(Normalizer):
    """Normalizer that knows three identities of the degree-based helpers, so that equivalent spellings of one formula compare equal:
    sind(180 - x) = sind(x), cosd(180 - x) = -cosd(x), cosd(asind(sind(x))) = cosd(x) (x an altitude, within +-90 degrees); and that
    clamp(x, -1, 1) under an inverse sine/cosine is the identity in exact arithmetic (its argument is a sine or cosine)."""

    def code(self, n):
        n = strip(n)
        if n[0] == "call" and short_callee(n[1]) == "clamp" and len(n[2]) == 3:
            lo, hi = strip(n[2][1]), strip(n[2][2])
            if lo[0] == "k" and hi[0] == "k" and float(lo[1]) == -1.0 and float(hi[1]) == 1.0:
                return self.code(n[2][0])
        return Normalizer.code(self, n)

    def fatom(self, fname, args):
        from ..exprs import Poly, Rat
        if fname in ("sind", "cosd") and len(args) == 1:
            a = args[0]
            if a.d.is_const() and a.n.t.get((), 0) == 180 * a.d.const_value() and len(a.n.t) > 1:
                y = Rat(Poly.const(180)) - a
                inner = self.fatom(fname, [y])
                return inner if fname == "sind" else -inner
            if fname == "cosd" and a.d.is_const() and len(a.n.t) == 1:
                (m, cf), = a.n.t.items()
                if cf == a.d.const_value() and len(m) == 1 and m[0][1] == 1:
                    for (f1, a1, id1) in self.fatoms:
                        if id1 == m[0][0] and f1 == "asind" and len(a1) == 1 and a1[0].d.is_const() and len(a1[0].n.t) == 1:
                            (m2, cf2), = a1[0].n.t.items()
                            if cf2 == a1[0].d.const_value() and len(m2) == 1 and m2[0][1] == 1:
                                for (f2, a2, id2) in self.fatoms:
                                    if id2 == m2[0][0] and f2 == "sind":
                                        return self.fatom("cosd", a2)
        return Normalizer.fatom(self, fname, args)


def check_sun_position(ctx, prog, rule="c20.sunpos"):
    """sun altitude and azimuth against spherical astronomy, as formulas: with declination d, hour angle h, latitude w,
         sin(alt) = sin d sin w + cos d cos w cos h
         sin(az)  = cos d sin h / cos(alt),   cos(180 - az) = (cos w sin d - sin w cos d cos h) / cos(alt)      (az from south)
       and az is recovered from asin(sin az) by quadrant: cos(180-az) < 0 -> asin(.); > 0 and sin >= 0 -> 180 - asin(.); > 0 and sin < 0 -> -(180 + asin(.))"""
    from ..exprs import Rat, Poly
    cm = {"sind": "sind", "cosd": "cosd", "asind": "asind", "acosd": "acosd"}
    # ---- altitude
    af = prog.find("climate::solar::altitude_sol_from_data")
    asc = Scope(prog, af)
    nz = TrigNormalizer({"declination": "d", "hourangle": "h", "latitude": "w"}, cm)
    asin_calls = [strip(asc._rw(asc.eb.call_node(t, b))) for b, t in af.body.calls() if short_callee(callee_name(t) or "") == "asind"]
    ctx.require(len(asin_calls) == 1, "altitude_sol_from_data: one asind(..) expected")
    got = nz.code(asin_calls[0][2][0])
    want = nz.ref("sind(d)*sind(w) + cosd(d)*cosd(w)*cosd(h)")
    if got.equals(want) and not nz.unknown:
        ctx.ok(rule, rule + "|altitude", "sin(altitude) = sin d sin w + cos d cos w cos h", af.loc())
    else:
        ctx.violation(rule, rule + "|altitude", "the sun's altitude is the inverse sine of %s; spherical astronomy gives sin d sin w + cos d cos w cos h" % str(got)[:200], af.loc())
    rets = [strip(asc._rw(n_)) for _, n_ in returned_nodes(af.body)]
    other = [r for r in rets if not (r == asin_calls[0] or (r[0] == "k" and float(r[1]) == 0.0) or show(r) == show(asin_calls[0]))]
    if other:
        ctx.violation(rule, rule + "|altitude|returns", "altitude_sol_from_data also returns %s" % show(other[0])[:80], af.loc())
    # ---- azimuth
    zf = prog.find("climate::solar::azimuth_sol_from_data")
    zsc = Scope(prog, zf)
    nz = TrigNormalizer({"declination": "d", "hourangle": "h", "latitude": "w", "altsol": "a"}, cm)
    ref_sin = nz.ref("cosd(d)*sind(h)/cosd(a)")
    ref_cos = nz.ref("(cosd(w)*sind(d) - sind(w)*cosd(d)*cosd(h))/cosd(a)")
    ref_aux = nz.ref("asind(cosd(d)*sind(h)/cosd(a))")
    east, west = Rat(Poly.const(180)) - ref_aux, Rat(Poly.const(0)) - (Rat(Poly.const(180)) + ref_aux)
    # cos(180 - az) = 0 is the sun due east (sin > 0: az = +90 = 180 - asin(1)) or due west (sin < 0: az = -90 = -(180 + asin(-1))); on the equator at the
    # equinox it is so all day.  Both cannot vanish at once (sin^2 + cos^2 = 1).
    expected = {("neg", 1): [ref_aux], ("neg", -1): [ref_aux], ("neg", 0): [ref_aux],
                ("pos", 1): [east], ("pos", -1): [west], ("pos", 0): [east, west],
                ("zero", 1): [east], ("zero", -1): [west]}
    import operator
    OPS = {"Lt": operator.lt, "Le": operator.le, "Gt": operator.gt, "Ge": operator.ge, "Eq": operator.eq, "Ne": operator.ne}
    bad = []
    seen_quantities = set()
    for (cs, ss), wants in sorted(expected.items()):
        cval = {"neg": -1, "pos": 1, "zero": 0}[cs]

        def atom_value(n_):
            n_ = strip(n_)
            if n_[0] == "bin" and n_[1] in OPS and strip(n_[3])[0] == "k":
                x = nz.code(strip(n_[2]))
                k_ = float(strip(n_[3])[1])
                if x.equals(ref_sin):
                    seen_quantities.add("sin")
                    return "1" if OPS[n_[1]](ss, k_) else "0"
                if x.equals(ref_cos):
                    seen_quantities.add("cos")
                    return "1" if OPS[n_[1]](cval, k_) else "0"
            return None
        r = TB.eval_return(zsc, atom_value)
        if isinstance(r, tuple) and r and r[0] == "stuck":
            raise AnalysisError("azimuth_sol_from_data: a branch tests %s, which is neither sin(az) = cos d sin h / cos(alt) nor cos(180 - az) = (cos w sin d - sin w cos d cos h) / cos(alt)" % r[1])
        gotz = nz.code(r)
        if nz.unknown:
            raise AnalysisError("azimuth_sol_from_data: unknown quantity %s" % nz.unknown[:2])
        if not any(gotz.equals(w_) for w_ in wants):
            bad.append((cs, ss, gotz, wants[0]))
    if bad:
        cs, ss, gotz, w_ = bad[0]
        only_zero = all(b_[0] == "zero" for b_ in bad)
        ctx.violation(rule, rule + ("|azimuth|due-east-west" if only_zero else "|azimuth"),
                      "for a sun with cos(180 - az) %s 0 and sin(az) %s 0 the azimuth returned is %s; spherical astronomy gives %s (az measured from south; "
                      "asind#.. is the inverse sine of cos d sin h / cos(alt)) - %d of 8 sign cases differ%s"
                      % ({"neg": "<", "pos": ">", "zero": "="}[cs], {1: ">", 0: "=", -1: "<"}[ss], str(gotz)[:160], str(w_)[:120], len(bad),
                         ": with the sun due east the result is -270 instead of +90, outside [-180, 180]" if only_zero else ""), zf.loc())
    else:
        ctx.ok(rule, rule + "|azimuth", "azimuth = quadrant-corrected inverse sine of cos d sin h / cos(alt) in all 8 sign cases of (cos(180-az), sin(az))", zf.loc())
    check_inverse_trig_domain(ctx, prog)


def check_inverse_trig_domain(ctx, prog, rule="c20.domain"):
    """"sun altitude and azimuth agree with spherical astronomy for every latitude, declination and hour", "the incidence angle ... is the angle between the
    sun direction and the surface's outward normal": the quantities handed to an inverse sine / cosine are sums of products of sines and cosines that reach
    exactly +-1 inside the quantifier (sun at the zenith, surface facing the sun, sun due east).  In f32 the sum lands a unit in the last place beyond 1
    there, asin/acos give NaN, and what follows treats the NaN as night / drops the beam.  So every argument of asin/acos in the solar model must be, on the
    path to the call, a sine or cosine itself or clamped to [-1, 1].  Wrappers (asind, acosd) are followed to their callers."""
    INV = ("asin", "acos")
    fns = [f for f in prog.fns.values() if f.crate == "climate" and f.path.startswith("climate::solar::") and not f.raw.get("impl_derived")]
    wrappers = {}      # fn id -> index of the parameter that goes straight into asin/acos
    sites = []
    for f in fns:
        sc = Scope(prog, f)
        for b, t in f.body.calls():
            nm = callee_name(t) or ""
            if short_callee(nm) in INV and ("f32" in nm or "f64" in nm) and t["args"]:
                a = strip(sc.operand(t["args"][0]))
                if a[0] == "arg":
                    wrappers[f.id] = a[1]
                else:
                    sites.append((f, sc, t, a, short_callee(nm)))
    for f in fns:
        sc = Scope(prog, f)
        for b, t in f.body.calls():
            from ..mir import callee_id
            cid = callee_id(t)
            if cid in wrappers and len(t["args"]) >= wrappers[cid]:
                sites.append((f, sc, t, strip(sc.operand(t["args"][wrappers[cid] - 1])), prog.fns[cid].path.split("::")[-1]))
    ctx.floor(rule, "inverse sine / cosine call sites in climate::solar", len(sites), 4)
    seen = {}
    for f, sc, t, a, what in sorted(sites, key=lambda x: (x[0].id, x[2].get("ln") or 0)):
        base = "%s|%s|%s" % (rule, f.path.split("::")[-1], what)
        seen[base] = seen.get(base, 0) + 1
        key = base if seen[base] == 1 else "%s#%d" % (base, seen[base])
        how = _bounded_unit(a)
        if how:
            ctx.ok(rule, key, "argument of %s is %s" % (what, how), f.loc(t.get("ln")))
        elif a[0] == "bin" or (a[0] == "call" and short_callee(a[1]) in ("mul_add",)):
            ctx.violation(rule, key, "%s(%s): the argument is computed in f32 from sines and cosines and is not limited to [-1, 1]; where it should be exactly +-1 "
                          "(sun at the zenith, surface facing the sun) rounding puts it beyond, the inverse function gives NaN and the result is lost "
                          "(altitude 0 at noon, beam dropped)" % (what, show(a)[:90]), f.loc(t.get("ln")))
        else:
            raise AnalysisError("%s: argument of %s is %s - neither arithmetic, a sine/cosine nor a clamp: not a shape this rule decides" % (f.path, what, show(a)[:80]))


def _bounded_unit(a):
    """is the node within [-1, 1] by construction: a sine or cosine, or clamp(_, -1, 1) / min(1).max(-1)"""
    a = strip(a)
    if a[0] == "k":
        try:
            return "the constant %s" % a[1] if -1.0 <= float(a[1]) <= 1.0 else None
        except ValueError:
            return None
    if a[0] != "call":
        return None
    sh = short_callee(a[1])
    if sh in ("sin", "cos", "sind", "cosd"):
        return "a %s(..) value" % sh
    if sh == "clamp" and len(a[2]) == 3:
        lo, hi = strip(a[2][1]), strip(a[2][2])
        if lo[0] == "k" and hi[0] == "k" and float(lo[1]) >= -1.0 and float(hi[1]) <= 1.0:
            return "clamped to [%s, %s]" % (lo[1], hi[1])
    if sh in ("min", "max") and len(a[2]) == 2:
        # max(min(x, 1), -1) in either nesting / argument order
        def lim(n, fn):
            n = strip(n)
            if n[0] == "call" and short_callee(n[1]) == fn and len(n[2]) == 2:
                ks = [float(strip(x)[1]) for x in n[2] if strip(x)[0] == "k"]
                rest = [x for x in n[2] if strip(x)[0] != "k"]
                if len(ks) == 1 and len(rest) == 1:
                    return ks[0], rest[0]
            return None, None
        other = "max" if sh == "min" else "min"
        k1, inner = lim(a, sh)
        if k1 is not None:
            k2, _ = lim(inner, other)
            if k2 is not None and min(k1, k2) >= -1.0 and max(k1, k2) <= 1.0:
                return "limited with min/max to [%s, %s]" % (min(k1, k2), max(k1, k2))
    return None


ROLE_WORDS = ("tilt", "azimuth", "latitude", "longitude", "albedo", "declination", "hourangle", "altitude", "zenith")


def _role(name):
    nm = (name or "").lower().replace("_", "")
    hits = [r for r in ROLE_WORDS if r in nm]
    if "azimuth" in nm and "sol" in nm:
        return "sol-azimuth"
    return hits[0] if len(hits) == 1 else None


def check_argument_roles(ctx, prog, rule="c20.rad"):
    """all the angles of the solar model are f32: the compiler cannot tell a tilt from an azimuth.  Wherever a function of the climate crate is called with an
    argument that is itself a parameter or field named after one of the model's quantities, that name must be the quantity the callee's parameter is named after"""
    from ..mir import callee_id
    n = 0
    for f in sorted(prog.fns.values(), key=lambda f: f.id):
        if f.crate not in ("climate", "bemodel") or f.raw.get("impl_derived"):
            continue
        eb = None
        for b, t in f.body.calls():
            cid = callee_id(t)
            if cid not in prog.fns or prog.fns[cid].crate != "climate":
                continue
            cal = prog.fns[cid]
            eb = eb or ExprBuilder(f.body)
            for i, a in enumerate(t["args"]):
                pn = cal.body.names.get(i + 1)
                an = leaf_name(strip(eb.operand(a)))
                ra, rp = _role((an or "").split(".")[-1]), _role(pn)
                if not (ra and rp):
                    continue
                n += 1
                if ra != rp:
                    ctx.violation(rule, "%s|argument-role|%s->%s|%s" % (rule, f.path.split("::")[-1], cal.path.split("::")[-1], pn),
                                  "%s passes `%s` (a %s) where %s expects `%s` (a %s): both are f32, so this compiles, and the surface or sun the callee computes with is not the one "
                                  "the caller describes" % (f.path.split("::")[-1], an, ra, cal.path.split("::")[-1], pn, rp), f.loc(t.get("ln")))
    ctx.floor(rule, "named angle arguments passed to climate functions", n, 30)
    if not any(i.rule == rule and "|argument-role|" in i.key and i.verdict == "violation" for i in ctx.instances):
        ctx.ok(rule, rule + "|argument-roles", "%d arguments named after a quantity of the model (tilt, azimuth, latitude, ...) go to the callee parameter of the same name" % n, None)


def check_radiation(ctx, prog, rule="c20.rad"):
    idir = prog.find("climate::solar::I_dir")
    sc = Scope(prog, idir)
    rns = returned_nodes(idir.body)
    n = strip(sc._rw(rns[0][1])) if len(rns) == 1 else None
    okm = n is not None and n[0] == "call" and short_callee(n[1]) == "max" and any(strip(a)[0] == "k" and float(strip(a)[1]) == 0.0 for a in n[2])
    if okm:
        ctx.ok(rule, rule + "|I_dir", "I_dir = max(0, G_b cos(theta)): beam radiation never negative", idir.loc())
    else:
        ctx.violation(rule, rule + "|I_dir", "I_dir returns %s, expected max(0, .)" % (show(n)[:80] if n else "?"), idir.loc())
    # I_dif_grnd form
    g = prog.find("climate::solar::I_dif_grnd")
    lm = {"gsolbeam": "Gb", "gsoldiff": "Gd", "altsol": "alt", "betasurf": "beta", "albedo": "rho"}
    cm = {"sind": "sind", "cosd": "cosd"}
    nz, code = norm_of(prog, g, lm, cm)
    ref = nz.ref("(Gd + Gb*sind(alt)) * rho * (1 - cosd(beta)) / 2")
    if code.equals(ref) and not nz.unknown:
        ctx.ok(rule, rule + "|I_dif_grnd", "I_dif_grnd = (G_dif + G_b sin a) rho (1 - cos b)/2 (at b = 180 deg: rho x global horizontal)", g.loc())
    else:
        ctx.violation(rule, rule + "|I_dif_grnd", "I_dif_grnd normalises to %s, expected %s" % (code, ref), g.loc())
    # the two I_dif_tot copies: I_dif_tot_eq vs inline in I_dif_tot / radiation_for_surface
    try:
        eqf = prog.find("climate::solar::I_dif_tot_eq")
        lm2 = {"idif": "a", "icircum": "b", "idifgrnd": "c"}
        nz2, c2 = norm_of(prog, eqf, lm2)
        r2 = nz2.ref("a - b + c")
        if c2.equals(r2) and not nz2.unknown:
            ctx.ok(rule, rule + "|I_dif_tot_eq", "I_dif_tot_eq = I_dif - I_circum + I_dif_grnd", eqf.loc())
        else:
            ctx.violation(rule, rule + "|I_dif_tot_eq", "I_dif_tot_eq normalises to %s" % c2, eqf.loc())
    except AnalysisError as e:
        ctx.note("I_dif_tot_eq: %s" % e)
    # the radiation and solar-geometry functions compute on the caller's angles and irradiances: no parameter is overwritten before use
    # (`surf_tilt = wrap(surf_tilt)` turns the identities above into statements about a different surface)
    nfun = 0
    for fn_ in sorted(prog.fns.values(), key=lambda f: f.id):
        if fn_.crate != "climate" or fn_.kind not in ("fn", "assocfn") or not fn_.path.startswith("climate::solar::") or fn_.raw.get("impl_derived"):
            continue
        nfun += 1
        sc_ = Scope(prog, fn_)
        for l in range(1, fn_.body.argc + 1):
            ds = [d for d in fn_.body.defs().get(l, [])]
            if ds:
                d = ds[0]
                val = show(strip(sc_.rvalue(d[3]["rv"])))[:80] if d[0] == "st" else show(strip(sc_._rw(sc_.eb.call_node(d[2], d[1]))))[:80]
                ctx.violation(rule, "%s|params|%s|%s" % (rule, fn_.path, fn_.body.names.get(l, "_%d" % l)),
                              "parameter `%s` of %s is overwritten with %s before it is used: the radiation identities are then evaluated for a different input "
                              "(e.g. a tilt of exactly 180 degrees mapped onto a half-open interval becomes 0: a downward surface is treated as horizontal)"
                              % (fn_.body.names.get(l, "_%d" % l), fn_.path.split("::")[-1], val), fn_.loc(d[3].get("ln") if d[0] == "st" else d[2].get("ln")))
    ctx.floor(rule, "solar functions examined for overwritten parameters", nfun, 25)
    ctx.ok(rule, rule + "|params", "no parameter of the %d functions of climate::solar is overwritten" % nfun, None)
    # incidence angle (ISO 52010-1 eq. 17): the angle between the sun direction and the outward normal of a surface of tilt b, azimuth g,
    # written with the model's conventions (south = 0, east positive): cos(theta) = sd sw cb - sd cw sb cg + cd cw cb ch + cd sw sb cg ch + cd sb sg sh
    af = prog.find("climate::solar::angle_sol_surf")
    lmA = {"declination": "d", "hourangle": "h", "latitude": "w", "surf_tilt": "b", "surf_azimuth": "g"}
    cmA = {"sind": "sind", "cosd": "cosd", "acosd": "acosd"}
    nzA, codeA = norm_of(prog, af, lmA, cmA)
    refA = nzA.ref("acosd(sind(d)*sind(w)*cosd(b) - sind(d)*cosd(w)*sind(b)*cosd(g) + cosd(d)*cosd(w)*cosd(b)*cosd(h) + cosd(d)*sind(w)*sind(b)*cosd(g)*cosd(h) "
                   "+ cosd(d)*sind(b)*sind(g)*sind(h))")
    if codeA.equals(refA) and not nzA.unknown:
        ctx.ok(rule, rule + "|angle_sol_surf", "incidence angle = acos of the five-term dot product of sun direction and surface normal (eq. 17)", af.loc())
    else:
        ctx.violation(rule, rule + "|angle_sol_surf", "angle_sol_surf normalises to %s, expected the dot product of eq. 17" % str(codeA)[:200], af.loc())
    # every place that reports an incidence angle takes it from angle_sol_surf with (declination, hour angle, latitude, tilt, azimuth) in that order
    nang = 0
    for fn_ in sorted(prog.fns.values(), key=lambda f: f.id):
        if fn_.crate != "climate" or fn_.raw.get("impl_derived") or fn_.root != fn_.id:
            continue
        sc_ = Scope(prog, fn_)
        for b, i, st in fn_.body.statements():
            if st["s"] == "assign" and st["rv"]["r"] == "agg" and st["rv"].get("adt", "").endswith("SunSurfaceAngles"):
                node = sc_.rvalue(st["rv"])
                fl = dict(zip(node[2], node[3]))
                a = strip(fl["angle"])
                nang += 1
                key = "%s|incidence|%s" % (rule, fn_.path.split("::")[-1])
                names = [leaf_name(strip(x)) for x in a[2]] if a[0] == "call" else []
                if a[0] == "call" and short_callee(a[1]) == "angle_sol_surf" and names[:2] == ["declination", "hourangle"] and (names[2] or "").endswith("latitude") \
                        and names[3:] == ["surf_tilt", "surf_azimuth"]:
                    ctx.ok(rule, key, "SunSurfaceAngles.angle = angle_sol_surf(declination, hourangle, latitude, tilt, azimuth)", fn_.loc(st.get("ln")))
                elif a[0] == "call" and short_callee(a[1]) == "angle_sol_surf":
                    ctx.violation(rule, key, "angle_sol_surf is called with %s, expected (declination, hourangle, latitude, surf_tilt, surf_azimuth)" % names, fn_.loc(st.get("ln")))
                elif "azimuth_sol_surf(" in show(a):
                    # positive evidence: azimuth_sol_surf (eq. 18) is hourangle - surface azimuth; a formula for the incidence angle in terms of the sun's position
                    # relative to the surface needs the *solar* azimuth minus the surface azimuth, which differs from it away from solar noon
                    ctx.violation(rule, key, "the incidence angle reported by %s is %s: it is computed from azimuth_sol_surf = hour angle - surface azimuth (eq. 18) where the "
                                  "sun's azimuth relative to the surface is needed; the two agree only at solar noon (or for a horizontal surface)"
                                  % (fn_.path.split("::")[-1], show(a)[:80]), fn_.loc(st.get("ln")))
                else:
                    raise AnalysisError("%s reports an incidence angle computed as %s, not through angle_sol_surf (eq. 17): an alternative formula this rule cannot compare"
                                        % (fn_.path.split("::")[-1], show(a)[:100]))
    ctx.floor(rule, "SunSurfaceAngles construction sites", nang, 1)
    # reference wiring of radiation_for_surface (ISO 52010 data flow): which quantity each model function receives
    rf = prog.find("climate::solar::radiation_for_surface")
    rsc = Scope(prog, rf)

    def wd(n):
        n = strip(n)
        if n[0] == "arg":
            return n[2]
        if n[0] == "var":
            return n[2]
        if n[0] == "proj":
            return wd(n[1]) + "".join(n[2])
        if n[0] == "call":
            return "%s(%s)" % (short_callee(n[1]), ",".join(wd(a) for a in n[2]))
        if n[0] == "k":
            return n[1]
        return show(n)[:40]
    DECL, HA = "declination_from_nday(nday)", "hourangle_from_tsol(hour)"
    ALT = "altitude_sol_from_data(%s,%s,latitude)" % (DECL, HA)
    ANG = "angle_sol_surf(%s,%s,latitude,surf_tilt,surf_azimuth)" % (DECL, HA)
    GB = "G_sol_b(gsol.dir,%s)" % ALT
    DP = "get_diffuse_params(nday,%s,gsol.dif,%s,%s)" % (GB, ALT, ANG)
    WIRING = {
        "angle_sol_surf": ANG, "altitude_sol_from_data": ALT, "G_sol_b": GB, "get_diffuse_params": DP,
        "I_dir": "I_dir(%s,%s)" % (GB, ANG),
        "I_circum_eq": "I_circum_eq(gsol.dif,%s.F1,%s.a,%s.b)" % (DP, DP, DP),
        "I_dif_eq": "I_dif_eq(gsol.dif,%s.F1,%s.F2,%s.a,%s.b,surf_tilt)" % (DP, DP, DP, DP),
        "I_dif_grnd": "I_dif_grnd(%s,gsol.dif,%s,surf_tilt,albedo)" % (GB, ALT),
    }
    seen_w = {}
    for b, t in rf.body.calls():
        nm = short_callee(callee_name(t) or "")
        if nm in WIRING:
            seen_w[nm] = (wd(rsc._rw(rsc.eb.call_node(t, b))), t.get("ln"))
    ctx.require(set(seen_w) == set(WIRING), "radiation_for_surface: model functions %s are not called (data flow not recognised)" % sorted(set(WIRING) - set(seen_w)))
    for nm, want in sorted(WIRING.items()):
        got, ln_ = seen_w[nm]
        key = "%s|wiring|%s" % (rule, nm)
        if got == want:
            ctx.ok(rule, key, "%s receives the caller's angles/irradiances unmodified" % nm, rf.loc(ln_))
        else:
            # name the first differing argument
            i0 = next((i for i, (x, y) in enumerate(zip(got, want)) if x != y), min(len(got), len(want)))
            lo = max(0, got.rfind(",", 0, i0) + 1, got.rfind("(", 0, i0) + 1)
            ctx.violation(rule, key, "in radiation_for_surface an input of %s is `%s..` where the reference data flow has `%s..`: the input is transformed on the way, so the "
                          "identities checked for the model functions no longer describe the surface the caller asked for" % (nm, got[lo:lo + 70], want[lo:lo + 40]), rf.loc(ln_))
    # brightness thresholds strictly increasing
    bc = prog.find("climate::solar::brightness_coefficients")
    chain, default = TB.threshold_chain(bc)
    ctx.floor(rule, "clearness thresholds", len(chain), 5)
    cs = [Fraction(c) for (_, c, _, _, _) in chain]
    ops = {op for (op, _, _, _, _) in chain}
    if cs == sorted(cs) and len(set(cs)) == len(cs) and ops <= {"Lt", "Le"}:
        ctx.ok(rule, rule + "|brightness", "clearness bins %s strictly increasing (no dead arm)" % [float(c) for c in cs], bc.loc())
    else:
        ctx.violation(rule, rule + "|brightness", "clearness thresholds %s with operators %s are not strictly increasing" % ([float(c) for c in cs], ops), bc.loc())


def run_fixture(ctx):
    prog = ctx.prog
    tf = prog.fn_by_path("poscontrol::c20_zone_from_str")
    rows = {lit: TB.variant_of(val) for lit, val, ln in TB.str_match_table(tf)}
    if rows.get("B1") != "B1":
        ctx.violation("c20.names", "fixture", "literal B1 maps to %s" % rows.get("B1"), tf.loc())
