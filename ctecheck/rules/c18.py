"""C18 - HULC file parsers (partial: tables only)."""
import re

from ..cfgq import Scope, returned_nodes, bool_taken
from ..dataflow import consumption, uses_of
from ..exprs import ExprBuilder, strip, short_callee, show, leaf_name, walk, origin_desc
from ..facts import AnalysisError
from ..mir import callee_name, pl_local
from .. import tables as TB

ID = "C18"
LEVEL = "other"
RULE_TEXT = ("the block-keyword table, the parent-assignment decision table of build_blocks, the routing table vs the handling arms of Data::new, the "
             "(block type, attribute key, accessor, required|default) rows of every TryFrom<BdlBlock>, the column handling of the KyG/tbl parsers; provenance of the "
             "values merged from the catalogue; dominance (count test before record parse) and must-pass-through (ABSORPTANCE on every loop path) queries over the CFG")
EXPLANATION = ("D1 BdlBlockType::from_str maps one keyword to each of the variants (keyword = variant name); D2 parents: FLOOR sets the floor, SPACE hangs from the "
               "floor, the five wall kinds hang from the space, CONSTRUCTION/WINDOW/DOOR hang from the wall, everything else has no parent; D3 the block types routed into "
               "each bucket are exactly the types its match handles; D4 every recorded attribute row is still read with the same key, type and default (one-directional); "
               "D5 KyG numeric columns go through the decimal-comma replacement and ElemType's code table is complete")
DECIDED = ["D1 keyword table", "D2 parent table", "D3 routing = handling", "D4 attribute rows (one-directional)", "D5 KyG/tbl column handling",
           "D6 tbl record fields are read from the column of their declaration position; the KyG obstruction factor is column 6 / column 3",
           "D7 project definitions win over catalogue entries of the same name (provenance of every value entering a project table)",
           "D8 every f32 parse of a KyG column goes through the decimal-comma replacement; an optional KyG column i is read whenever the line has more than i columns",
           "D9 a quoted attribute value never reaches the number test with its quotes removed",
           "D10 a construction's ABSORPTANCE is stored on every path through the loop that merges CONSTRUCTION and LAYERS blocks",
           "D11 the record loops of tbl::parse test the header's count before reading a record",
           "D12 the default tilt of an opaque element without TILT, for every (block type, LOCATION) cell"]
UNDECIDED = ["everything else lexical: comments, blank lines, CRLF, multi-line lists, number formats, names that look like numbers"]
ASSUMPTIONS = ["the attribute rows in ctecheck/spec/bdl_schema.py were transcribed from the doc-comment examples and the code of the pinned commit and reviewed"]
LEVEL_TEXT = ("Partial (tables only): the keyword, parent, routing and attribute tables through which 'every value written in the file is recovered' are read from MIR and "
              "compared with the transcribed reference tables, for all block types at once; a dropped parent arm, a misrouted block type, a misspelt attribute key or a "
              "changed legacy default is reported. The lexical layer (tokenising, comments, CRLF, multi-line values) is NOT decided by this family.")
LEVEL_NOTE = "Trusted: rustc MIR; the transcribed tables in ctecheck/spec/bdl_schema.py."
TECHNIQUE = ("decision-table and string-table extraction from MIR compared with transcribed reference tables; value provenance through loops and helpers "
             "(catalogue merge); dominance (count test before record parse) and must-pass-through (ABSORPTANCE on every loop path) queries on the CFG; decision walk "
             "of the default tilt over all (type, LOCATION) cells")
FIXTURE_EXPECT = ["c18.parent"]

PARENT_SPEC = {
    "Floor": ("sets currentfloor", None),
    "Space": ("sets currentspace", "currentfloor"),
    "ExteriorWall": ("sets currentwall", "currentspace"), "InteriorWall": ("sets currentwall", "currentspace"), "Roof": ("sets currentwall", "currentspace"),
    "UndergroundWall": ("sets currentwall", "currentspace"), "UndergroundFloor": ("sets currentwall", "currentspace"),
    "Construction": (None, "currentwall"), "Window": (None, "currentwall"), "Door": (None, "currentwall"),
}
ROUTING_SPEC = {
    "db_blocks": {"Construction", "Material", "NameFrame", "GlassType", "Layers", "Gap"},
    "poly_blocks": {"Polygon"},
    "floor_blocks": {"Floor"},
    "env_blocks": {"Space", "ExteriorWall", "Roof", "InteriorWall", "UndergroundWall", "ThermalBridge", "Window", "BuildingShade"},
    "schedule_blocks": {"WeekSchedulePd", "DaySchedulePd", "SchedulePd", "RunPeriodPd"},
}


def region_from(body, start, maxb=40):
    """blocks of a switch arm: reachable from start until a block that has a predecessor outside the region (join)"""
    seen = []
    work = [start]
    inr = set()
    while work and len(inr) < maxb:
        b = work.pop()
        if b in inr:
            continue
        if b != start and any(p not in inr and not body.is_cleanup(p) for p in body.preds(b)):
            continue
        inr.add(b)
        seen.append(b)
        work.extend(body.succs(b))
    return seen


def arm_effects(sc, body, blocks):
    """named-local assignments and pushes performed in a region"""
    sets = {}
    pushes = []
    for b in blocks:
        for s in body.blocks[b]["st"]:
            if s["s"] == "assign" and isinstance(s["p"], int) and s["p"] in body.names:
                sets[body.names[s["p"]]] = sc.rvalue(s["rv"])
        t = body.blocks[b]["term"]
        if t["t"] == "call":
            nm = short_callee(callee_name(t) or "")
            if isinstance(t["dest"], int) and t["dest"] in body.names:
                sets[body.names[t["dest"]]] = sc._rw(sc.eb.call_node(t, b))
            if nm == "push":
                pushes.append(leaf_name(strip(sc.operand(t["args"][0]))))
    return sets, pushes


def btype_switches(prog, fn, variants):
    """switches on discr(<x>.btype): list of (scope, block, {variant: region blocks}, else region)"""
    out = []
    root = Scope(prog, fn)
    for sc in root.all_scopes():
        body = sc.body
        for b in range(body.n):
            t = body.blocks[b]["term"]
            if t["t"] != "switch":
                continue
            d = strip(sc.operand(t["d"]))
            if d[0] != "discr":
                continue
            ln_ = leaf_name(strip(d[1])) or show(d[1])
            if not ln_.endswith(".btype"):
                continue
            arms = {}
            for v, tg in t["arms"]:
                arms[variants[int(v)]] = tg
            out.append((sc, b, arms, t["else"], ln_, t.get("ln")))
    return out


ACCESSORS = {"remove_f32", "remove_str", "get_f32", "get_str", "get_f32_or_default", "get_str_or_default", "remove_str_or_default", "remove_f32_or_default",
             "remove", "get", "remove_u32", "get_u32"}


def attr_rows(prog):
    """{(Type, KEY): (accessor, mode)} for every TryFrom<BdlBlock> implementation in hulc::bdl"""
    rows = {}
    for fn in sorted(prog.fns.values(), key=lambda f: f.id):
        r = fn.raw
        if fn.kind != "assocfn" or "TryFrom" not in (r.get("impl_trait") or "") or not fn.id.endswith("::try_from"):
            continue
        if not any("BdlBlock" in i for i in r.get("inputs", [])) or fn.crate != "hulc":
            continue
        tname = r["impl_self"].split("::")[-1]
        root = Scope(prog, fn)
        for sc in root.all_scopes():
            body = sc.body
            for b, t in body.calls():
                nm = callee_name(t) or ""
                s = short_callee(nm)
                if "AttrMap" not in nm or s not in ACCESSORS or len(t["args"]) < 2:
                    continue
                k = strip(sc.operand(t["args"][1]))
                if k[0] != "s":
                    key = "<dynamic>"
                else:
                    key = k[1]
                kind, detail = consumption(body, b, t)
                mode = kind
                if kind == "defaulted":
                    # find the default constant
                    mode = "defaulted:" + default_of(sc, body, t)
                rows.setdefault((tname, key), set()).add((s, mode))
    return rows


def default_of(sc, body, t):
    d = pl_local(t["dest"])
    for u in uses_of(body, d):
        if u[0] == "term" and u[2]["t"] == "call":
            nm = short_callee(callee_name(u[2]) or "")
            if nm == "unwrap_or" and len(u[2]["args"]) == 2:
                v = strip(sc.operand(u[2]["args"][1]))
                if v[0] == "k":
                    return v[1]
                if v[0] == "s":
                    return repr(v[1])
                return "expr"
            if nm == "unwrap_or_default":
                return "Default"
            if nm in ("ok", "is_ok", "is_err"):
                return "Option"
            if nm == "unwrap_or_else" and len(u[2]["args"]) == 2:
                # the fallback is computed: name it when it is the value of another attribute of the same block (legacy files: SPACE-CONDITIONS <- SPACE-TYPE)
                from .c08 import closure_return
                r = closure_return(sc.prog, sc, sc.operand(u[2]["args"][1]), None)
                if r is not None:
                    keys = [strip(x[2][1])[1] for x in walk(r) if x[0] == "call" and "AttrMap" in x[1] and short_callee(x[1]) in ACCESSORS and len(x[2]) >= 2 and strip(x[2][1])[0] == "s"]
                    if len(keys) == 1:
                        return "attr:" + keys[0]
                return nm
            if nm in ("unwrap_or_else", "map_or", "map_or_else", "or_else"):
                return nm
    return "?"


def run(ctx):
    prog = ctx.prog
    bt = prog.adt("hulc::bdl::blocks::BdlBlockType")
    variants = [v["name"] for v in bt["variants"]]
    # ---------------- D1
    fs = prog.method("bdl::blocks::BdlBlockType", "FromStr", "from_str")
    rows = TB.str_match_table(fs)
    ctx.floor("c18.keyword", "block keywords", len(rows), 50)
    seen_var = {}
    for lit, val, ln in rows:
        v = TB.variant_of(val) if val else None
        key = "c18.keyword|%s" % lit
        if v is None or v not in variants:
            ctx.violation("c18.keyword", key, "keyword %r maps to %s" % (lit, v), fs.loc(ln))
        elif lit.replace("-", "").lower() != v.lower():
            ctx.violation("c18.keyword", key, "keyword %r is parsed as block type %s" % (lit, v), fs.loc(ln))
        elif v in seen_var:
            ctx.violation("c18.keyword", key, "block type %s has two keywords (%r and %r)" % (v, seen_var[v], lit), fs.loc(ln))
        else:
            seen_var[v] = lit
            ctx.ok("c18.keyword", key, "%r -> %s" % (lit, v), fs.loc(ln))
    missing = [v for v in variants if v not in seen_var]
    if missing:
        ctx.violation("c18.keyword", "c18.keyword|coverage", "block types without keyword: %s (such blocks cannot be parsed)" % missing, fs.loc())
    else:
        ctx.ok("c18.keyword", "c18.keyword|coverage", "all %d block types have exactly one keyword" % len(variants), fs.loc())

    # ---------------- D0 value typing: a value is a number exactly when the float parser accepts it
    ins = prog.find("hulc::bdl::common::AttrMap::insert")
    isc = Scope(prog, ins)
    nsites = 0
    for b, i, st in ins.body.statements():
        if st["s"] == "assign" and st["rv"]["r"] == "agg" and st["rv"].get("adt", "").endswith("common::BdlValue") and st["rv"].get("variant") == "Number":
            nsites += 1
            node = isc.rvalue(st["rv"])
            payload = origin_desc(strip(node[3][0]))
            conds = [(strip(c), tk) for (_, d, c, tk) in isc.conditions(b)]
            extra = [show(c)[:80] for c, tk in conds if not (c[0] == "discr" and "parse(" in show(c))]
            okp = "parse(" in payload and payload.endswith("@Ok.0") and ("parse(v)" in payload or "parse(deref(v))" in payload or "parse(v" in payload)
            if okp and not extra:
                ctx.ok("c18.lex", "c18.lex|number", "a value is stored as Number exactly when str::parse::<f32> accepts the whole value", ins.loc(st.get("ln")))
            elif extra:
                ctx.violation("c18.lex", "c18.lex|number", "a value the float parser accepts is stored as a number only if also %s: numbers written in a form that this extra "
                              "test rejects (e.g. a signed exponent) are kept as strings and typed fields fall back to their defaults" % " and ".join(extra), ins.loc(st.get("ln")))
            else:
                ctx.violation("c18.lex", "c18.lex|number", "Number payload is %s, expected the result of parsing the whole value" % payload, ins.loc(st.get("ln")))
    ctx.require(nsites == 1, "AttrMap::insert: expected one BdlValue::Number construction, found %d" % nsites)

    # ---------------- D2
    bb = prog.find("hulc::bdl::blocks::build_blocks")
    check_parents(ctx, prog, bb, variants, PARENT_SPEC)

    # ---------------- D3
    dn = prog.find("hulc::bdl::Data::new")
    sws = btype_switches(prog, dn, variants)
    # routing switch: every block type is sent to a bucket (a push onto a named list in the arm, or a `&mut bucket` chosen in the arm and pushed after it);
    # what matters is the partition of the block types, not what the buckets are called
    routing = {}
    handled = []
    for (sc, b, arms, els, subject, ln) in sws:
        body = sc.body
        dest_by_var = {}
        for v, tg in arms.items():
            region = region_from(body, tg)
            sets, pushes = arm_effects(sc, body, region)
            dest = None
            elem_name = subject[:-len(".btype")] if subject.endswith(".btype") else subject
            for b_ in region:
                t_ = body.blocks[b_]["term"]
                if t_["t"] == "call" and short_callee(callee_name(t_) or "") == "push" and len(t_["args"]) == 2:
                    # routing pushes the very element whose type is being looked at
                    if (leaf_name(strip(sc.operand(t_["args"][1]))) or "") == elem_name:
                        dest = leaf_name(strip(sc.operand(t_["args"][0])))
            if dest is None and not pushes:
                for nm_, val_ in sets.items():
                    vv = strip(val_)
                    ln_v = leaf_name(vv) or (leaf_name(strip(vv[2])) if vv[0] == "un" else None) or show(vv)
                    if isinstance(ln_v, str) and "." in ln_v and not ln_v.endswith(".btype"):
                        dest = ln_v
            if dest is not None:
                dest_by_var[v] = dest
        if len(set(dest_by_var.values())) >= 3:
            for v, p in dest_by_var.items():
                routing.setdefault(p, set()).add(v)
            continue
        if not dest_by_var or len(set(dest_by_var.values())) < 3:
            handled.append((set(arms), sc, ln, subject))
    ctx.floor("c18.routing", "routed buckets", len(routing), 5)
    groups = {frozenset(v) for v in routing.values()}
    for bucket, want in sorted(ROUTING_SPEC.items()):
        key = "c18.routing|%s" % bucket
        if frozenset(want) in groups:
            ctx.ok("c18.routing", key, "routes %s to one bucket" % sorted(want), dn.loc())
        elif routing:
            got = sorted({tuple(sorted(g)) for g in groups if g & want})
            ctx.violation("c18.routing", key, "the block types %s are not routed together as one group: they go to %s (a type routed elsewhere is parsed by the wrong handler or dropped)"
                          % (sorted(want), got), dn.loc())
    nh = 0
    for hs, sc, ln, subject in handled:
        # a handling switch over one bucket: exactly the types routed there
        cand = [g for g in groups if g & hs]
        if not cand or not any(frozenset(want) & hs for want in ROUTING_SPEC.values()):
            continue
        nh += 1
        g = max(cand, key=lambda g_: len(g_ & hs))
        bucket = next((k for k, w in ROUTING_SPEC.items() if frozenset(w) == g), "?")
        hkey = "c18.handling|%s" % bucket
        if any(i.key == hkey for i in ctx.instances):
            continue
        if hs == set(g):
            ctx.ok("c18.handling", hkey, "the match over this bucket handles exactly the routed types (the `_ => unreachable!()` arm is dead)", sc.fn.loc(ln))
        else:
            ctx.violation("c18.handling", hkey, "routed %s but handled %s: %s reach unreachable!() / are dropped" % (sorted(g), sorted(hs), sorted(set(g) ^ hs)), sc.fn.loc(ln))
    ctx.floor("c18.handling", "handling switches", nh, 3)

    check_catalog_merge(ctx, prog)
    check_quoted_values(ctx, prog)
    check_construction_absorptance(ctx, prog)
    check_tbl_counts(ctx, prog)
    check_default_tilt(ctx, prog)
    # ---------------- D4
    from ..spec.bdl_schema import ROWS
    now = attr_rows(prog)
    ctx.floor("c18.attr", "attribute rows read", len(now), 100)
    for (tname, akey), want in sorted(ROWS.items()):
        key = "c18.attr|%s|%s" % (tname, akey)
        got = now.get((tname, akey))
        if got is None:
            ctx.violation("c18.attr", key, "attribute %s of %s is no longer read (its written value would be lost)" % (akey, tname), None)
        elif set(want) - got:
            ctx.violation("c18.attr", key, "attribute %s of %s is now read as %s, reference %s (type or default changed)" % (akey, tname, sorted(got), sorted(want)), None)
        else:
            ctx.ok("c18.attr", key, "%s" % sorted(want), None)

    # ---------------- D5 KyG
    kp = prog.find("hulc::kyg::parse")
    ksc = Scope(prog, kp)
    check_kyg_numbers(ctx, prog, kp)
    check_kyg_optional_columns(ctx, prog, kp)
    # ElemType table
    try:
        et = prog.adt("hulc::tbl::ElemType")
        ef = prog.method("tbl::ElemType", "FromStr", "from_str")
        erows = TB.str_match_table(ef)
        evars = [v["name"] for v in et["variants"]]
        got = {TB.variant_of(val) for lit, val, ln in erows if val}
        lits = [lit for lit, val, ln in erows]
        if set(evars) <= got | {None} and len(set(lits)) == len(lits):
            ctx.ok("c18.tbl", "c18.tbl|ElemType", "%d codes map onto the %d element kinds" % (len(lits), len(evars)), ef.loc())
        else:
            ctx.violation("c18.tbl", "c18.tbl|ElemType", "element kinds without code: %s" % sorted(set(evars) - got), ef.loc())
    except AnalysisError as e:
        ctx.note("ElemType table not analysed: %s" % e)
    # tbl records: the struct declares its fields in the order of the file's columns (each field's doc comment describes that column), so field i is read from column i
    for tname in ("Element", "Zone"):
        adt = prog.adts.get("hulc::tbl::" + tname)
        fns_ = [f for f in prog.fns.values() if f.path.startswith("hulc::<tbl::%s as " % tname) and f.path.endswith("FromStr>::from_str")]
        if adt is None or len(fns_) != 1:
            continue
        ef = fns_[0]
        esc = Scope(prog, ef)
        lit = [esc.rvalue(st["rv"]) for b, i, st in ef.body.statements() if st["s"] == "assign" and st["rv"]["r"] == "agg" and st["rv"].get("adt", "").endswith("tbl::" + tname)]
        if len(lit) != 1:
            raise AnalysisError("tbl::%s::from_str: record literal not found" % tname)
        decl = [f_["name"] for f_ in adt["variants"][0]["fields"]]
        fl = dict(zip(lit[0][2], lit[0][3]))
        cols = {}
        for fname, v in fl.items():
            idx = [strip(x[2][1]) for x in walk(strip(v)) if x[0] == "call" and short_callee(x[1]) == "index" and len(x[2]) == 2]
            idx = [int(i_[1]) for i_ in idx if i_[0] == "k"]
            if len(idx) == 1:
                cols[fname] = idx[0]
        if len(cols) < len(decl) - 1:
            continue        # not the positional form (fields computed otherwise): nothing to compare
        wrong = [(fn_, cols[fn_], decl.index(fn_)) for fn_ in decl if fn_ in cols and cols[fn_] != decl.index(fn_)]
        key = "c18.tbl|columns|%s" % tname
        if wrong:
            ctx.violation("c18.tbl", key, "tbl::%s reads %s: the fields are declared (and documented) in column order, so a written value ends up in another field"
                          % (tname, ", ".join("`%s` from column %d (declared at position %d)" % w for w in wrong)), ef.loc())
        else:
            ctx.ok("c18.tbl", key, "each of the %d fields of tbl::%s is read from the column of its declaration position" % (len(cols), tname), ef.loc())
    # KyG solar-gain rows: the obstruction factor is H after all shading (column 6) over H without obstacles (column 3); columns as documented in the parser
    fsh = []
    for sc in ksc.all_scopes():
        for b, i, st in sc.body.statements():
            if st["s"] == "assign" and st["rv"]["r"] == "bin" and st["rv"]["op"] == "Div":
                n = strip(sc.rvalue(st["rv"]))

                def col(x):
                    # a column parsed through a small helper (`parse_decimal(fields[6])`) is read with the helper in place
                    try:
                        from ..cfgq import inline_all
                        x = inline_all(prog, strip(x))
                    except Exception:
                        pass
                    ii = [strip(y[2][1]) for y in walk(strip(x)) if y[0] == "call" and short_callee(y[1]) == "index" and len(y[2]) == 2]
                    pp = [1 for y in walk(strip(x)) if y[0] == "call" and short_callee(y[1]) == "parse"]
                    return int(ii[0][1]) if len(ii) == 1 and ii[0][0] == "k" and pp else None
                a, b_ = col(n[2]), col(n[3])
                if a is not None and b_ is not None:
                    fsh.append((a, b_, st.get("ln")))
    if len(fsh) == 1:
        a, b_, ln = fsh[0]
        if (a, b_) == (6, 3):
            ctx.ok("c18.kyg", "c18.kyg|fshobst-columns", "F_sh;obst = column 6 (H after remote, facade and louvre shading) / column 3 (H without obstacles)", kp.loc(ln))
        else:
            ctx.violation("c18.kyg", "c18.kyg|fshobst-columns", "the obstruction factor of a window is column %d / column %d of its KyG row; the file gives H without obstacles in column 3 and H after "
                          "all shading in column 6 (columns 4 and 5 are the intermediate values), so the factor HULC computed is not the one recovered" % (a, b_), kp.loc(ln))
    else:
        raise AnalysisError("kyg::parse: the quotient of two parsed columns that gives F_sh;obst was not found (%d candidates)" % len(fsh))


def _reaches_call(prog, sc, node, suffix):
    """does the value reach the result of a call to the function `suffix` - directly, or as an element of a collection that does (loop elements are
    followed to the collection they are taken from, parameters of an inlined helper bound to the caller's arguments)"""
    from ..cfgq import ELEM_SOURCES, bind_args

    def walk(n, depth=0):
        if not isinstance(n, tuple) or not n or depth > 6:
            return False
        if n[0] == "call" and isinstance(n[1], str) and n[1].endswith(suffix):
            return True
        if n[0] == "elem":
            for ch in ELEM_SOURCES.get((prog.root_of(sc.fn).id, n[1], n[2])) or []:
                src = bind_args(ch.source, sc.argmap) if sc.argmap else ch.source
                if walk(src, depth + 1):
                    return True
            return False
        return any(walk(c, depth) for c in (n if isinstance(n[0], tuple) else n[1:]) if isinstance(c, tuple))
    return walk(node)


def check_catalog_merge(ctx, prog, rule="c18.catalog"):
    """"the typed elements carry the written values": parse_with_catalog completes the project's material / construction / glass / frame tables with the
    built-in LIDER catalogue.  A definition written in the project file must survive the merge: the catalogue may add names the project does not define, not
    replace the ones it does.  `project_map.extend(catalogue_map)` and `project_map.insert(name, catalogue_entry)` replace the entry of the same name;
    `project_map.entry(name).or_insert(catalogue_entry)` keeps it.  Which values come from the catalogue is decided by provenance (the expression, with the
    parameters of private helpers bound at their call sites and loop elements rewritten to their sources, reaches the result of load_lider_catalog), not
    by how anything is called."""
    entry = prog.fn_by_path("hulc::ctehexml::parse_with_catalog")
    loader = "ctehexml::load_lider_catalog"
    ctx.require(any((callee_name(t) or "").endswith(loader) for sc in Scope(prog, entry).all_scopes() for _, t in sc.body.calls()),
                "parse_with_catalog no longer reaches load_lider_catalog: how the catalogue gets into the project's tables was not recognised")
    bad, good = 0, 0
    for sc in Scope(prog, entry).all_scopes():
        f = sc.fn
        for b, t in sc.body.calls():
            nm = callee_name(t) or ""
            sh = short_callee(nm)
            if sh not in ("extend", "insert", "or_insert", "or_insert_with", "append") or not ("Map" in nm or "map::" in nm):
                continue
            if not any(_reaches_call(prog, sc, sc.operand(a), loader) for a in t["args"][1:]):
                continue
            recv = strip(sc.operand(t["args"][0]))
            if sh in ("or_insert", "or_insert_with"):
                good += 1
                continue
            table = (show(strip(sc.eb.operand(t["args"][0]))).split(".")[-1] or "?").strip(")")
            if _reaches_call(prog, sc, recv, loader):
                continue        # the catalogue's own map being built, not the project's
            bad += 1
            ctx.violation(rule, "%s|%s" % (rule, table), "the catalogue's `%s` are merged into the project's with %s(): a catalogue entry replaces the project's definition of the "
                          "same name, so what the project file says about it (dU and summer shading of a window construction, the g of a glass, a material's "
                          "conductivity) is lost" % (table, sh), f.loc(t.get("ln")))
    if bad == 0 and good >= 1:
        ctx.ok(rule, rule + "|project-wins", "catalogue entries are added with entry(name).or_insert(..): the project's own definitions are kept (%d tables)" % good, None)
    elif bad == 0:
        raise AnalysisError("parse_with_catalog: how the catalogue is merged into the project's tables was not recognised")


def _from_split(n):
    """does the node derive from a column of a `split`-ted line"""
    return any(x[0] == "call" and short_callee(x[1]) in ("split", "splitn", "split_terminator") for x in walk(n))


def check_kyg_numbers(ctx, prog, kp, rule="c18.kyg"):
    """"KyGananciasSolares.txt (either decimal separator ...)": every number of the file is a column of a `;`-separated line, written with `,` or `.`
    depending on the machine that ran HULC.  Each f32 parse of such a column has to go through the `,` -> `.` replacement (directly or in a helper);
    one that does not makes the whole file unreadable when that column carries a comma."""
    ksc = Scope(prog, kp)
    nparse, nbad = 0, 0
    seen = {}
    for sc in ksc.all_scopes():
        for b, t in sc.body.calls():
            nm = callee_name(t) or ""
            if not (short_callee(nm) == "parse" and "str" in nm):
                continue
            g = (callee_name(t) and t["f"]["k"].get("g")) or []
            if not any(x in ("f32", "f64") for x in g):
                continue
            arg = strip(sc.operand(t["args"][0]))
            if not _from_split(arg) and prog.root_of(sc.fn).id == kp.id:
                continue
            nparse += 1
            has_replace = any(x[0] == "call" and short_callee(x[1]) == "replace" and any(strip(y)[0] in ("k", "s", "kx") and "," in str(strip(y)[1]) for y in x[2][1:]) for x in walk(arg))
            idx = [str(strip(x[2][1])[1]) for x in walk(arg) if x[0] == "call" and short_callee(x[1]) in ("index", "nth", "get") and len(x[2]) == 2 and strip(x[2][1])[0] == "k"]
            base = "%s|number|%s" % (rule, "col" + idx[0] if idx else show(arg)[:40])
            seen[base] = seen.get(base, 0) + 1
            key = base if seen[base] == 1 else "%s#%d" % (base, seen[base])
            if has_replace:
                ctx.ok(rule, key, "parse::<f32>(%s) via decimal-comma replacement" % show(arg)[:90], sc.fn.loc(t.get("ln")))
            else:
                nbad += 1
                ctx.violation(rule, key, "column %s of a `;`-separated line is parsed as f32 without the `,` -> `.` replacement the other columns get: a file written with decimal "
                              "commas in this line is rejected as a whole" % (idx[0] if idx else "?"), sc.fn.loc(t.get("ln")))
    ctx.floor(rule, "float parses of columns in kyg::parse", nparse, 17)


def check_kyg_optional_columns(ctx, prog, kp, rule="c18.kyg"):
    """"old and new column layouts": later HULC versions append columns to the element lines.  A column i can be read exactly when the line has more than
    i columns.  Reading it only under `columns > K` with K > i ties it to columns that came later: a line of an intermediate version (the shipped
    00_plurif_s3_v0_d3/KyGananciasSolares.txt has windows with 9 columns and walls with 6) loses the columns it does carry."""
    ksc = Scope(prog, kp)
    n = 0
    seen = {}
    for sc in ksc.all_scopes():
        for b, t in sc.body.calls():
            nm = short_callee(callee_name(t) or "")
            if nm not in ("index", "get") or len(t["args"]) != 2:
                continue
            vec, ix = strip(sc.operand(t["args"][0])), strip(sc.operand(t["args"][1]))
            if not _from_split(vec):
                continue
            if ix[0] != "k":
                # `get(i)` in a local closure applied to constant column numbers: one optional column per call of the closure
                from ..mir import callee_id
                root = prog.root_of(sc.fn)
                if nm == "get" and sc.fn.id != root.id and ix[0] == "arg":
                    calls = [t_ for _, t_ in root.body.calls() if callee_id(t_) == sc.fn.id]
                    rsc = Scope(prog, root)
                    for t_ in calls:
                        tup = strip(rsc.operand(t_["args"][1]))
                        cols = [strip(x)[1] for x in (tup[3] if tup[0] == "agg" else [tup]) if strip(x)[0] == "k"]
                        if cols:
                            n += 1
                            ctx.ok(rule, "%s|optional-column|%s" % (rule, cols[0]), "column %s is read whenever the line has it (get(i) in a local closure)" % cols[0], root.loc(t_.get("ln")))
                continue
            try:
                i = int(ix[1])
            except ValueError:
                continue
            gates = []
            for (_, d, c, tk) in sc.conditions(b):
                c = strip(c)
                if c[0] == "bin" and c[1] in ("Gt", "Ge") and bool_taken(tk) and strip(c[3])[0] == "k" and \
                        any(x[0] == "call" and short_callee(x[1]) == "len" for x in walk(strip(c[2]))) and _from_split(strip(c[2])):
                    k = int(strip(c[3])[1])
                    gates.append(k if c[1] == "Gt" else k - 1)
            if nm == "index" and not gates:
                continue          # a mandatory column (the line is rejected when too short)
            n += 1
            base = "%s|optional-column|%d" % (rule, i)
            seen[base] = seen.get(base, 0) + 1
            key = base if seen[base] == 1 else "%s#%d" % (base, seen[base])
            if gates and max(gates) > i:
                ctx.violation(rule, key, "column %d is read only when the line has more than %d columns: a line with %d..%d columns carries it and loses it (old layouts: "
                              "windows with 9 columns, walls with 6)" % (i, max(gates), i + 1, max(gates)), sc.fn.loc(t.get("ln")))
            else:
                ctx.ok(rule, key, "column %d is read whenever the line has it" % i, sc.fn.loc(t.get("ln")))
    ctx.floor(rule, "optional columns of element lines", n, 9)


def check_quoted_values(ctx, prog, rule="c18.quoted"):
    """"quoted and bare strings ... parsing recovers ... every attribute value": AttrMap::insert decides Number or String by trying to parse the text as f32.
    A value written in quotes is text (`PHONE = "000000000"`, `GROUP = "2020"`, `"inf"`): once its quotes are taken off it must not reach that test, or the
    text is replaced by a number (and `GROUP` of a frame stops being readable as a string).  Every value handed to AttrMap::insert in the block parser is
    followed back through its definitions: none may be the quoted text with the quotes trimmed off."""
    from .c06 import local_defs
    pa = prog.find("hulc::bdl::blocks::parse_attributes")
    n = 0

    def unquotes(node):
        return any(x[0] == "call" and short_callee(x[1]) in ("trim_matches", "trim_start_matches", "trim_end_matches", "strip_prefix", "strip_suffix", "replace") and
                   any(strip(y)[0] in ("k", "s", "kx") and '"' in str(strip(y)[1]) for y in x[2][1:]) for x in walk(node))

    def quoted_path(sc):
        """a quoted value is stored as text on a path of its own: a map insert that does not go through AttrMap::insert, under a test for the opening quote"""
        for b, t in sc.body.calls():
            nm = callee_name(t) or ""
            if short_callee(nm) == "insert" and ("BTreeMap" in nm or "HashMap" in nm) and not nm.endswith("AttrMap::insert"):
                for (_, d, c, tk) in sc.conditions(b):
                    if bool_taken(tk) and any(x[0] == "call" and short_callee(x[1]) in ("starts_with", "strip_prefix") and
                                              any(strip(y)[0] in ("k", "s", "kx") and '"' in str(strip(y)[1]) for y in x[2][1:]) for x in walk(strip(c))):
                        return True
        return False
    for sc in Scope(prog, pa).all_scopes():
        for b, t in sc.body.calls():
            nm = callee_name(t) or ""
            if not nm.endswith("AttrMap::insert") or len(t["args"]) < 3:
                continue
            n += 1
            v = strip(sc.operand(t["args"][2]))
            nodes = [v]
            if v[0] == "var":
                for l, defs in local_defs(sc, v[2]).items():
                    nodes += [d[1] for d in defs]
            key = "%s|parse_attributes|insert" % rule
            if any(unquotes(x) for x in nodes) and not quoted_path(sc):
                ctx.violation(rule, key, "a quoted value has its quotes trimmed off and then goes through AttrMap::insert's number test: `PHONE = \"000000000\"` becomes "
                              "Number(0.0), `GROUP = \"2020\"` a number no typed element can read as its group", sc.fn.loc(t.get("ln")))
            else:
                ctx.ok(rule, key, "a value written in quotes is stored as text on a path of its own, or no quote is ever removed before the number test", sc.fn.loc(t.get("ln")))
    ctx.floor(rule, "AttrMap::insert calls in parse_attributes", n, 1)


def check_construction_absorptance(ctx, prog, rule="c18.typed"):
    """"the typed elements built from the blocks carry the written values": Data::new merges every CONSTRUCTION block with the LAYERS block it names into the
    wall-construction table.  ABSORPTANCE is written on the CONSTRUCTION, so on every path through the body of the loop over the constructions that goes on to
    the next one (error exits leave the loop) the construction's absorptance has to be stored; a path that stores nothing leaves the LAYERS entry with the
    default 0.6 (old LIDER files name a construction like its layers: "forBaja" in 06_adosado.cte, and that is the branch that skipped it)."""
    from ..loops import classify_loops
    # the loop sits in Data::new or in a helper of the same module it was moved to
    cands = [f for f in prog.fns.values() if f.crate == "hulc" and f.path.startswith("hulc::bdl::") and f.path.count("::") <= 3 and f.root == f.id and not f.raw.get("impl_derived")]
    loops = [i for f in sorted(cands, key=lambda f: f.id) for i in classify_loops(prog, f)
             if i["kind"] == "iterator" and (i.get("source") or "").replace("*", "").split(".")[-1].strip("()") == "constructions"]
    ctx.require(len(loops) == 1, "hulc::bdl: the loop over the CONSTRUCTION blocks was not found (%d candidates)" % len(loops))
    info = loops[0]
    fn = info["fn"]
    sc = Scope(prog, fn)
    body = fn.body
    blocks, h = set(info["blocks"]), info["header"]
    use = set()
    for b in blocks:
        for st in body.blocks[b]["st"]:
            if st["s"] == "assign" and isinstance(st["p"], dict) and any(str(x).endswith("absorptance") for x in st["p"].get("p", [])):
                if "absorptance" in show(strip(sc.rvalue(st["rv"]))) and "constructions" in show(strip(sc.rvalue(st["rv"]))):
                    use.add(b)
    # the body is entered at the Some arm of next(): start from every block that follows a next() call of this loop
    starts = [t.get("to") for b in blocks for t in [body.blocks[b]["term"]] if t["t"] == "call" and short_callee(callee_name(t) or "") == "next" and t.get("to") in blocks]
    ctx.require(starts, "Data::new: next() of the constructions loop not found")
    # a lookup that already succeeded in this iteration (`layers.get_mut(&cons.layers).ok_or_else(..)?`) succeeds again: the None arm of a second
    # `if let Some(..) = layers.get_mut(&cons.layers)` is not a path
    looked = {}
    for b in sorted(blocks):
        t = body.blocks[b]["term"]
        if t["t"] == "call" and short_callee(callee_name(t) or "") in ("get", "get_mut") and len(t["args"]) == 2:
            looked.setdefault(show(strip(sc.operand(t["args"][0]))) + "|" + show(strip(sc.operand(t["args"][1]))), []).append((b, t))
    infeasible = set()
    for k_, lst in looked.items():
        if len(lst) < 2:
            continue
        (b1, t1) = lst[0]
        for (b2, t2) in lst[1:]:
            nb = t2.get("to")
            if nb is None or body.blocks[nb]["term"]["t"] != "switch":
                continue
            tt = body.blocks[nb]["term"]
            arms = tt["arms"]
            none_t = [tg for v, tg in arms if v == "0"] or ([tt["else"]] if [v for v, _ in arms] == ["1"] and tt.get("else") is not None else [])
            if none_t and body.dominates(b1, b2):
                infeasible.add((nb, none_t[0]))
    seen, todo, skipped = set(), list(starts), False
    while todo:
        b = todo.pop()
        if b in seen or b in use:
            continue
        seen.add(b)
        for s_ in body.succs(b):
            if (b, s_) in infeasible:
                continue
            if s_ == h and b not in starts:
                skipped = True
            elif s_ in blocks and s_ != h:
                todo.append(s_)
    key = "%s|Construction.ABSORPTANCE" % rule
    if not use:
        ctx.violation(rule, key, "the absorptance written on a CONSTRUCTION block is never stored in the wall-construction table", fn.loc(info["line"]))
    elif skipped:
        ctx.violation(rule, key, "a path through the loop over the CONSTRUCTION blocks reaches the next construction without storing this one's ABSORPTANCE (the branch "
                      "taken when the construction is named like its LAYERS): the table entry keeps the default 0.6", fn.loc(info["line"]))
    else:
        ctx.ok(rule, key, "every path through the loop over the CONSTRUCTION blocks stores the construction's ABSORPTANCE in the table entry", fn.loc(info["line"]))


def check_tbl_counts(ctx, prog, rule="c18.tbl"):
    """"The same holds for ... NewBDL_O.tbl": the third line gives the number of element records and of zone records.  Each record loop must test its count
    before it reads a record: a loop that reads first and compares afterwards reads one record for a count of 0 (`0 1`: the zone is parsed as an element and
    the file is rejected; with the count never reached, every remaining line is taken).  The comparison with the count has to dominate the call that parses
    the record."""
    from ..loops import classify_loops
    fn = prog.find("hulc::tbl::parse")
    sc = Scope(prog, fn)
    body = fn.body
    n = 0
    for info in classify_loops(prog, fn):
        blocks = set(info["blocks"])
        parses = [b for b in blocks for t in [body.blocks[b]["term"]] if t["t"] == "call" and short_callee(callee_name(t) or "") == "parse"]
        if not parses:
            continue
        cmps = []
        for b in blocks:
            t = body.blocks[b]["term"]
            if t["t"] != "switch":
                continue
            d = strip(sc.operand(t["d"]))
            # the running count (a local updated in the loop) against the count read from the header (anything that is not a constant)
            if d[0] == "bin" and d[1] in ("Eq", "Ne", "Lt", "Le", "Gt", "Ge") and \
                    any(strip(x)[0] == "var" and strip(y)[0] != "k" for x, y in ((d[2], d[3]), (d[3], d[2]))):
                cmps.append((b, d))
        n += 1
        what = "records read by the loop at line %s" % info["line"]
        key = "%s|count-tested-first|%d" % (rule, n)
        if not cmps:
            raise AnalysisError("tbl::parse: the loop at line %s parses records but compares nothing with the counts of the header: not a shape this rule reads" % info["line"])
        if any(all(body.dominates(cb, pb) for pb in parses) for cb, _ in cmps):
            ctx.ok(rule, key, "the count of the header is tested before a record is parsed (a count of 0 reads nothing)", fn.loc(info["line"]))
        else:
            ctx.violation(rule, key, "the loop parses a record and only then compares the number read with the header's count (%s): for a count of 0 it still takes a record "
                          "(`0 1`: the zone is read as an element and the file rejected) and then never stops at the count" % show(cmps[0][1])[:60], fn.loc(info["line"]))
    ctx.floor(rule, "record loops of tbl::parse", n, 2)


def check_default_tilt(ctx, prog, rule="c18.default"):
    """"with the documented legacy defaults when an attribute is absent": an opaque element without TILT gets its tilt from what it is and where it is -
    a ROOF and anything with LOCATION = TOP is horizontal facing up (0), LOCATION = BOTTOM faces down (180), everything else is vertical (90).  The decision
    in Wall::try_from is walked for every (block type, LOCATION) cell with the TILT attribute absent, and the constant stored in `tilt` is compared."""
    from .c06 import local_defs
    f = prog.method("bdl::envelope::walls::Wall", "TryFrom", "try_from")
    sc = Scope(prog, f)
    body = f.body
    names = [v["name"] for v in prog.adt("hulc::bdl::blocks::BdlBlockType")["variants"]]
    start = None
    for b, t in body.calls():
        if short_callee(callee_name(t) or "") == "remove_f32" and any(strip(sc.operand(a))[0] in ("s", "k") and str(strip(sc.operand(a))[1]) == "TILT" for a in t["args"]):
            start = t.get("to")
    ctx.require(start is not None, "Wall::try_from: the read of the TILT attribute was not found")
    defs = [d for l, ds in local_defs(sc, "tilt").items() for d in ds]
    consts = {b: float(n[1]) for (b, n, ln) in defs if n[0] == "k"}
    targets = set(b for (b, n, ln) in defs)
    ctx.require(len(consts) >= 2, "Wall::try_from: the default values of `tilt` are not constants assigned to a local called tilt (%d found)" % len(consts))
    want = {}
    for bt in ("Roof", "ExteriorWall", "InteriorWall", "UndergroundWall"):
        for loc in (None, "TOP", "BOTTOM", "SIDE"):
            want[(bt, loc)] = 0.0 if (bt == "Roof" or loc == "TOP") else 180.0 if loc == "BOTTOM" else 90.0
    bad = []
    for (bt, loc), w in sorted(want.items(), key=str):
        if bt not in names:
            continue

        def atom_value(n, bt=bt, loc=loc):
            n = strip(n)
            if n[0] == "discr":
                s_ = show(strip(n[1]))
                if s_.endswith("btype"):
                    return str(names.index(bt))
                if "TILT" in s_:
                    return "0"
                if "location" in s_.lower():
                    return "0" if loc is None else "1"
            if n[0] == "call" and short_callee(n[1]) in ("eq", "ne") and "location" in show(n).lower():
                lits = [str(strip(a)[1]) for a in n[2] if strip(a)[0] in ("s", "k")]
                if lits:
                    r = (loc == lits[0])
                    return "1" if (r if short_callee(n[1]) == "eq" else not r) else "0"
            return None
        r = TB.walk_decision(sc, start, atom_value, targets)
        if isinstance(r, tuple) and r and r[0] == "stuck":
            raise AnalysisError("Wall::try_from: the default tilt depends on %s, which is neither the block type nor LOCATION: not a decision this rule reads" % show(r[1])[:80])
        got = consts.get(r)
        if got != w:
            bad.append((bt, loc, got, w))
    key = "%s|Wall.TILT" % rule
    if bad:
        bt, loc, got, w = bad[0]
        ctx.violation(rule, key, "an opaque element of type %s with LOCATION %s and no TILT gets tilt %s, the documented default is %s (%d of %d cells differ): a roof or floor "
                      "defined by its polygon alone is turned" % (bt, loc or "absent", got, w, len(bad), len(want)), f.loc())
    else:
        ctx.ok(rule, key, "without TILT: ROOF or LOCATION = TOP -> 0, LOCATION = BOTTOM -> 180, otherwise 90 (all %d (type, LOCATION) cells)" % len(want), f.loc())


def check_parents(ctx, prog, fn, variants, spec, rule="c18.parent"):
    sws = btype_switches(prog, fn, variants)
    ctx.require(len(sws) >= 1, "no switch on the block type found in %s" % fn.path)
    sc, b, arms, els, subject, ln = sws[0]
    body = sc.body
    n = 0
    for v in variants:
        tg = arms.get(v, els)
        blocks = region_from(body, tg)
        sets, pushes = arm_effects(sc, body, blocks)
        setvars = sorted(k for k in sets if k.startswith("current"))
        parent = None
        pv = sets.get("parent")
        if pv is None:
            # parent assigned through a temp: look for Some(clone(currentX)) aggregate in the region
            for bl in blocks:
                for s in body.blocks[bl]["st"]:
                    if s["s"] == "assign" and s["rv"]["r"] == "agg" and s["rv"].get("variant") in ("Some", "None") and "Option" in s["rv"].get("adt", ""):
                        pv = sc.rvalue(s["rv"])
        if pv is not None:
            pv = strip(pv)
            if pv[0] == "agg" and pv[1].endswith("Some"):
                parent = leaf_name(strip(pv[3][0]))
        want = spec.get(v, (None, None))
        want_set = [want[0].split()[-1]] if want[0] else []
        key = "%s|%s" % (rule, v)
        if v not in spec and not setvars and parent is None:
            continue     # no parent: counted once below
        n += 1
        probs = []
        if setvars != want_set:
            probs.append("sets %s, expected %s" % (setvars, want_set))
        if parent != want[1]:
            probs.append("parent is %s, expected %s" % (parent, want[1]))
        if probs:
            ctx.violation(rule, key, "; ".join(probs) + ": blocks of this type (or their children) get the wrong parent", fn.loc(ln))
        else:
            ctx.ok(rule, key, "%s; parent = %s" % (want[0] or "sets nothing", want[1]), fn.loc(ln))
    return n


def run_fixture(ctx):
    prog = ctx.prog
    fn = prog.fn_by_path("poscontrol::c18_build")
    bt = prog.adt("poscontrol::C18Type")
    variants = [v["name"] for v in bt["variants"]]
    check_parents(ctx, prog, fn, variants, {"Floor": ("sets currentfloor", None), "Space": ("sets currentspace", "currentfloor"), "Wall": ("sets currentwall", "currentspace"),
                                            "Window": (None, "currentwall")})
