"""C01 - Export tool writes exactly the model JSON to standard output."""
import re

from ..exprs import ExprBuilder, walk, show, short_callee, strip
from ..mir import callee_of, callee_name, op_const
from ..facts import AnalysisError
from ..cfgq import Scope

ID = "C01"
LEVEL = "proof"
RULE_TEXT = ("who-may-call over the over-approximate workspace call graph rooted at hulc2model::main: every stdout sink "
             "call site is an instance; plus provenance/dominance obligations on the sanctioned print, the exit codes, "
             "the error propagation in collect_hulc_data and thor's -o write")
EXPLANATION = ("D1 no stdout sink reachable from the export tool's main except one site in cli_main; D2 that site prints "
               "exactly `{}\\n` of the Ok payload of Model::as_json(&model), model = Continue payload of collect_hulc_data(..)?; "
               "D3 failure => no JSON, non-zero exit; D4 thor -o writes as_json() of the same conversion pair")
DECIDED = ["D1 nothing but the model goes to stdout (who-may-call)", "D2 the sanctioned site prints the model JSON and only it",
           "D3 failure implies no JSON and non-zero exit status", "D4 thor -o writes Model::as_json of the same conversion",
           "D5 the -o file is created/truncated and written by one write_all of the whole JSON",
           "D6 the auxiliary files stay optional in collect_hulc_data (what find_kyg / find_tbl return is never unwrapped or turned into an error)",
           "D7 no exit of the tool's own code is control-dependent on a file-system question about an optional file (dominating conditions of every process::exit)"]
UNDECIDED = ["exit status 0 on every convertible project (depends on absence of panics: C19/C14 inventories)",
             "byte equality of thor's file with hulc2model's stdout"]
ASSUMPTIONS = ["external crates do not write to stdout (env_logger default target is stderr)",
               "cfg(windows) GUI half of hulc2model is outside the claim"]
TRUSTED = ["std::io::_print is the only std entry used by print!/println!"]

SINK_RE = re.compile(r"(^|::)(_print|stdout|Stdout|StdoutLock|StdoutRaw)(::|<|$)|process::Command|from_raw_fd|libc::(write|printf|puts)")
FIXTURE_EXPECT = ["c01.sink", "c01.template"]


def is_sink(name):
    return bool(SINK_RE.search(name)) and "_eprint" not in name


def decode_template(bs):
    """fmt::Arguments byte template of this nightly: 0 end; n<0x80 literal of n bytes; 0xC0 plain placeholder;
    other >=0x80: placeholder with options (not decoded)."""
    out = []
    i = 0
    while i < len(bs):
        b = bs[i]
        if b == 0:
            if i != len(bs) - 1:
                return None
            return out
        if b < 0x80:
            lit = bytes(bs[i + 1:i + 1 + b])
            if len(lit) != b:
                return None
            out.append(("lit", lit.decode("utf-8", "replace")))
            i += 1 + b
        elif b == 0xC0:
            out.append(("arg", None))
            i += 1
        else:
            return None
    return None


def find_sinks(ctx, root_id):
    cg = ctx.cg
    seen = cg.reachable([root_id])
    sinks = []
    for fid in seen:
        for (name, ln, t) in cg.ext_calls[fid]:
            c = callee_of(t)
            nm2 = c["fn"] if c else ""
            if is_sink(name) or is_sink(nm2):
                sinks.append((fid, name, ln, t))
    return seen, sinks


def check_print_site(ctx, fn, term, rule_prefix, expect_callee_suffix="::as_json", key_fn=None):
    """D2 on one `_print(Arguments)` site. Returns (ok, detail)."""
    body = fn.body
    eb = ExprBuilder(body)
    arg = eb.operand(term["args"][0])
    if arg[0] != "call" or not arg[1].endswith("Arguments::<'a>::new"):
        return False, "print argument is not a single fmt::Arguments::new(..) (%s)" % show(arg)[:120]
    tmpl, argv = arg[2][0], arg[2][1]
    bs = None
    for n in walk(tmpl):
        if n[0] == "kx":
            pass
    # the template constant: find the statement defining it
    tb = find_bytes(body, term, eb)
    if tb is None:
        raise AnalysisError("cannot locate fmt template bytes for print site at %s" % fn.loc(term.get("ln")))
    dec = decode_template(tb)
    if dec is None:
        raise AnalysisError("cannot decode fmt template %s at %s" % (tb, fn.loc(term.get("ln"))))
    if dec != [("arg", None), ("lit", "\n")]:
        return False, "format template is %r, expected exactly one plain placeholder and a newline" % (dec,)
    if argv[0] != "agg" or len(argv[3]) != 1:
        return False, "print has %s arguments, expected 1" % (len(argv[3]) if argv[0] == "agg" else "?")
    a0 = argv[3][0]
    if a0[0] != "call" or "new_display" not in a0[1]:
        return False, "argument is not formatted with Display"
    val = a0[2][0]
    return True, val


def find_bytes(body, term, eb):
    """bytes of the &[u8; N] template constant feeding Arguments::new for this print"""
    # walk back from the print's argument local through single defs looking for a const with 'bytes'
    from ..mir import op_place, pl_local
    seen = set()
    work = [pl_local(op_place(term["args"][0]))] if op_place(term["args"][0]) is not None else []
    while work:
        l = work.pop()
        if l in seen:
            continue
        seen.add(l)
        for d in body.defs().get(l, []):
            if d[0] == "call":
                for a in d[2]["args"]:
                    p = op_place(a)
                    if p is not None:
                        work.append(pl_local(p))
            else:
                rv = d[3]["rv"]
                ops = []
                if rv["r"] == "use":
                    ops = [rv["a"]]
                elif rv["r"] in ("ref",):
                    work.append(pl_local(rv["p"]))
                elif rv["r"] == "agg":
                    ops = rv["ops"]
                for o in ops:
                    k = op_const(o)
                    if k and "bytes" in k:
                        return k["bytes"]
                    p = op_place(o)
                    if p is not None:
                        work.append(pl_local(p))
    return None


def check_optional_inputs(ctx, prog, rule="c01.optional"):
    """"For every HULC project directory the library can convert ... exits with status 0": the auxiliary files (KyGananciasSolares.txt, NewBDL_O.tbl) are
    optional - five of the shipped projects have no KyG file.  In collect_hulc_data the result of find_kyg / find_tbl (an Option of a path) may be passed on
    or defaulted, never turned into an error or unwrapped: that would make `--use-extra` fail on every project without the file."""
    f = prog.find("hulc2model::collect_hulc_data")
    n = 0
    calls = []
    # the function itself, its closures and the private helpers of the module it calls (with their parameters bound at the call)
    for sc in Scope(prog, f).all_scopes():
        for b, t in sc.body.calls():
            nm = short_callee(callee_name(t) or "")
            calls.append(nm)
            if nm not in ("ok_or", "ok_or_else", "expect", "unwrap", "context", "with_context") or not t["args"]:
                continue
            src = show(strip(sc.operand(t["args"][0])))
            for what in ("find_kyg", "find_tbl"):
                if what in src and ("@Continue" in src or "branch(" in src):
                    n += 1
                    ctx.violation(rule, "%s|%s" % (rule, what), "the optional path found by %s is turned into an error / unwrapped (%s): a project without that file no longer "
                                  "converts with --use-extra (five shipped projects have no KyGananciasSolares.txt)" % (what, nm), sc.fn.loc(t.get("ln")))
    ctx.require("find_kyg" in calls and "find_tbl" in calls, "collect_hulc_data no longer looks for the auxiliary files with find_kyg / find_tbl: not a shape this rule reads")
    if n == 0:
        ctx.ok(rule, rule + "|auxiliary-files", "the KyG and tbl paths stay optional (no ok_or / unwrap on what find_kyg / find_tbl return)", f.loc())


def run(ctx):
    prog = ctx.prog
    main = [f for f in prog.fns.values() if f.path == "hulc2model::main" and f.target_kind == "bin"]
    ctx.require(len(main) == 1, "anchor hulc2model::main (bin) not found")
    main = main[0]
    cli_main = prog.fn_by_path("hulc2model::cli::cli_main")
    check_optional_inputs(ctx, prog)
    seen, sinks = find_sinks(ctx, main.id)
    ctx.floor("c01.reach", "workspace bodies reachable from hulc2model::main", len(seen), 600)
    for need in ("hulc2model::collect_hulc_data", "hulc::ctehexml::parse_with_catalog", "hulc::bdl::Data::new"):
        f = [x for x in prog.fns.values() if x.path.startswith(need)]
        ctx.require(any(x.id in seen for x in f), "expected %s to be reachable from main (call graph went blind)" % need)
    conv = [x for x in prog.fns.values() if "TryFrom<&hulc::ctehexml::CtehexmlData>" in x.path and x.path.endswith("::try_from")]
    ctx.require(conv and all(x.id in seen for x in conv), "Model::try_from(&CtehexmlData) not reachable from main")

    sanctioned = []
    for (fid, name, ln, t) in sorted(sinks, key=lambda s: (prog.fns[s[0]].path, s[2] or 0)):
        fn = prog.fns[fid]
        disp = prog.display(fn)
        mb = t.get("mb") or []
        macro = next((m for m in mb if m.rstrip("!") in ("println", "print", "dbg")), short_callee(name))
        if fn.id == cli_main.id and "_print" in name:
            sanctioned.append((fn, t))
            continue
        # key: function + macro + ordinal within function (ordered by line)
        n = sum(1 for i in ctx.instances if i.key.startswith("c01.sink|%s|%s|" % (disp, macro)))
        key = "c01.sink|%s|%s|%d" % (disp, macro, n)
        ctx.violation("c01.sink", key,
                      "stdout sink `%s` reachable from the export tool: %s" % (name, ctx.cg.pretty_chain(seen, fid)),
                      fn.loc(ln))
    # every non-sink reachable body is a discharged obligation (counted, not listed)
    ctx.extra_cov["reachable_bodies_scanned"] = len(seen)
    ctx.extra_cov["external_call_sites_scanned"] = sum(len(ctx.cg.ext_calls[f]) for f in seen)
    ctx.ok("c01.sink", "c01.sink|scan", "%d reachable bodies, %d external call sites scanned for stdout sinks"
           % (len(seen), ctx.extra_cov["external_call_sites_scanned"]), main.loc())

    if len(sanctioned) != 1:
        ctx.violation("c01.sanctioned", "c01.sanctioned|count", "cli_main has %d stdout print sites, expected exactly 1" % len(sanctioned), cli_main.loc())
        return
    fn, t = sanctioned[0]
    body = fn.body
    ok, val = check_print_site(ctx, fn, t, "c01")
    if not ok:
        ctx.violation("c01.template", "c01.template|cli_main", val, fn.loc(t.get("ln")))
    else:
        ctx.ok("c01.template", "c01.template|cli_main", "template is `{}\\n` with one Display argument", fn.loc(t.get("ln")))
        # provenance: Ok payload of Model::as_json(&model)
        good = False
        detail = show(val)
        if val[0] == "proj" and val[2] == ("@Ok", ".0") and val[1][0] == "call" and val[1][1].endswith("Model::as_json"):
            m = val[1][2][0]
            # model = Continue payload of Try::branch(collect_hulc_data(..))
            if (m[0] == "proj" and m[2] == ("@Continue", ".0") and m[1][0] == "call" and m[1][1].endswith("::branch")
                    and m[1][2][0][0] == "call" and "collect_hulc_data" in m[1][2][0][1]):
                good = True
            else:
                detail = "as_json receiver is %s, expected the Continue payload of collect_hulc_data(..)?" % show(m)[:160]
        else:
            detail = "printed value is %s, expected the Ok payload of Model::as_json(&model)" % detail[:160]
        if good:
            ctx.ok("c01.provenance", "c01.provenance|cli_main", "printed value = as_json(&collect_hulc_data(..)?)@Ok", fn.loc(t.get("ln")))
            # the conversion is the library's conversion *for the user's options*: the flags reach collect_hulc_data as parsed, not recomputed
            call = m[1][2][0]
            eb0 = ExprBuilder(body)
            bad_args = []
            for ai, a in enumerate(call[2][1:], 1):
                a = strip(a)
                if a[0] == "proj" and strip(a[1])[0] in ("var", "arg") and "Options" in body.local_ty(strip(a[1])[1]):
                    continue          # a field of the parsed options
                opt_fields = {f_["name"] for ad in prog.adts.values() if ad["path"].endswith("::Options") for v_ in ad["variants"] for f_ in v_["fields"]}
                if a[0] == "proj" and a[2] and a[2][-1].lstrip(".") in opt_fields and not any(x[0] in ("bin", "un") for x in walk(a)):
                    continue          # the same field, read from the value an argument-parsing helper returns (no operator on the way)
                if a[0] == "k":
                    bad_args.append("argument %d is the constant %s" % (ai, a[1]))
                elif a[0] == "var":
                    vals = []
                    for d in body.defs().get(a[1], []):
                        vals.append(show(strip(eb0.rvalue(d[3]["rv"])))[:60] if d[0] == "st" else show(strip(eb0.call_node(d[2], d[1])))[:60])
                    bad_args.append("argument %d is the local `%s`, assigned %s" % (ai, a[2], " / ".join(vals)))
                elif any(x[0] in ("bin", "un") for x in walk(a)):
                    bad_args.append("argument %d is computed: %s" % (ai, show(a)[:80]))
                else:
                    raise AnalysisError("cli_main: argument %d of collect_hulc_data is %s - neither a field of the parsed Options nor a constant or computed value this rule can judge"
                                        % (ai, show(a)[:100]))
            if bad_args:
                ctx.violation("c01.provenance", "c01.provenance|cli_main|options", "collect_hulc_data is not called with the options as parsed from the command line: %s "
                              "(the exported model can differ from the library conversion for the same directory and option)" % "; ".join(bad_args), fn.loc(t.get("ln")))
            else:
                ctx.ok("c01.provenance", "c01.provenance|cli_main|options", "collect_hulc_data(dir, opts.<flag>, opts.<flag>): the parsed options reach the library unmodified", fn.loc(t.get("ln")))
        else:
            ctx.violation("c01.provenance", "c01.provenance|cli_main", detail, fn.loc(t.get("ln")))
    # model never mutably borrowed in cli_main, Model: Freeze
    model_locals = set()
    eb = ExprBuilder(body)
    for b, i, s in body.statements():
        if s["s"] == "assign" and isinstance(s["p"], int):
            n = eb.local(s["p"])
            if n[0] == "proj" and n[2] == ("@Continue", ".0") and n[1][0] == "call" and "collect_hulc_data" in show(n[1]):
                model_locals.add(s["p"])
    ctx.require(model_locals, "cannot find the model local in cli_main")
    mutated = False
    for b, i, s in body.statements():
        if s["s"] == "assign":
            rv = s["rv"]
            from ..mir import pl_local
            if rv["r"] == "ref" and rv["mut"] and pl_local(rv["p"]) in model_locals:
                mutated = True
            if pl_local(s["p"]) in model_locals and not isinstance(s["p"], int):
                mutated = True
    madt = prog.adt("bemodel::types::model::Model")
    if mutated or not madt["freeze"]:
        ctx.violation("c01.immutable", "c01.immutable|cli_main", "the converted model is mutated between conversion and printing (or Model is not Freeze)", fn.loc())
    else:
        ctx.ok("c01.immutable", "c01.immutable|cli_main", "no &mut borrow / field write of the model in cli_main; Model: Freeze", fn.loc())

    # D3: process::exit arguments non-zero on every site reachable (before or after) in the tool
    nexit = 0
    for fid in seen:
        f2 = prog.fns[fid]
        if f2.crate != "hulc2model":
            continue
        for b, t2 in f2.body.calls():
            nm = callee_name(t2) or ""
            if nm.endswith("process::exit"):
                nexit += 1
                k = op_const(t2["args"][0])
                key = "c01.exit|%s|%d" % (prog.display(f2), nexit)
                if k and "v" in k and k["v"] not in ("0",):
                    ctx.ok("c01.exit", key, "exit(%s)" % k["v"], f2.loc(t2.get("ln")))
                else:
                    ctx.violation("c01.exit", key, "process::exit with a zero or non-constant status on a failure path", f2.loc(t2.get("ln")))
    # D7: no exit of the tool's own code hangs on a question put to the file system.  Which files a project needs is the library's business
    # (collect_hulc_data; `c01.optional` keeps the auxiliary ones optional there): an exit of the binary that is control-dependent on
    # exists()/is_file()/metadata().. makes the tool fail on directories the library converts.
    FSQ = {"exists", "try_exists", "is_file", "is_dir", "metadata", "symlink_metadata", "read_dir", "open", "canonicalize", "read_to_string", "read"}
    OPTIONAL_FILES = ("KyGananciasSolares.txt", "NewBDL_O.tbl")      # what find_kyg / find_tbl look for (hulc2model/src/lib.rs); optional by `c01.optional`
    import json
    ngate = 0
    for fid in seen:
        f2 = prog.fns[fid]
        if f2.crate != "hulc2model" or f2.target_kind != "bin":
            continue
        sc2 = Scope(prog, f2)
        for b, t2 in f2.body.calls():
            if not (callee_name(t2) or "").endswith("process::exit"):
                continue
            ngate += 1
            key = "c01.fsgate|%s|%d" % (prog.display(f2), ngate)
            hit = None
            for (_, d_, n_, tk_) in sc2.own_conditions(b):
                for x in walk(n_):
                    if x[0] == "call" and short_callee(x[1]) in FSQ and ("path" in x[1].lower() or "fs::" in x[1]):
                        hit = (short_callee(x[1]), show(strip(n_))[:90])
            if hit and "join(" not in hit[1]:
                # the question is about the directory argument itself: a directory that does not exist holds no project, the library fails on it too
                ctx.ok("c01.fsgate", key, "%s() on the directory argument itself decides this exit (a missing directory holds no project)" % hit[0], f2.loc(t2.get("ln")))
            elif hit and not any(nm_.lower() in json.dumps(f2.raw).lower() for nm_ in OPTIONAL_FILES):
                raise AnalysisError("an exit of %s depends on %s() of a file inside the project directory (%s): whether the library needs that file is not "
                                    "something this rule reads" % (prog.display(f2), hit[0], hit[1]))
            elif hit:
                ctx.violation("c01.fsgate", key, "this exit is taken or not depending on %s() (%s): the tool refuses directories on its own account, whatever the "
                              "library would make of them (the auxiliary files are optional)" % hit, f2.loc(t2.get("ln")))
            else:
                ctx.ok("c01.fsgate", key, "no file-system query among the conditions that lead to this exit", f2.loc(t2.get("ln")))
    ctx.floor("c01.fsgate", "exit sites of the tool examined", ngate, 1)
    # main forwards cli_main's Result
    mb = main.body
    fw = False
    for b, t2 in mb.calls():
        if (callee_name(t2) or "").endswith("cli::cli_main") and t2["dest"] == 0:
            fw = True
    if fw and main.raw["output"].startswith("std::result::Result<"):
        ctx.ok("c01.main", "c01.main|forward", "main returns cli_main()'s Result", main.loc())
    else:
        ctx.violation("c01.main", "c01.main|forward", "hulc2model::main does not return cli_main()'s Result directly", main.loc())
    # the `?` on collect_hulc_data: Break edge returns via from_residual (propagated)
    check_propagated(ctx, cli_main, "collect_hulc_data", "c01.propagate|cli_main|collect_hulc_data")
    chd = prog.find("hulc2model::collect_hulc_data")
    for callee in ("find_ctehexml", "ok_or_else", "parse_with_catalog_from_path", "try_from"):
        check_propagated(ctx, chd, callee, "c01.propagate|collect_hulc_data|%s" % callee)

    # D4: thor.  The write may sit in a helper (`save_if_requested(&matches, "archivo_salida_json", .., &json, ..)`): every writefile call of the binary is
    # expressed in terms of main's values by binding helper parameters to the arguments of the helpers' call sites, and the content's data flow is followed
    # through the binary's own functions (load_model, json_or_exit, ...)
    thor = [f for f in prog.fns.values() if f.path == "thor::main"]
    ctx.require(len(thor) == 1, "anchor thor::main not found")
    thor = thor[0]
    from ..cfgq import bind_args
    from ..mir import callee_id
    tfns = [f for f in prog.fns.values() if f.path.startswith("thor::") and f.root == f.id]
    byid = {f.id: f for f in tfns}

    def call_sites_of(target):
        out = []
        for g in tfns:
            for g_ in [g] + prog.closures_of(g):
                eb_ = None
                for b_, t_ in g_.body.calls():
                    if callee_id(t_) == target.id:
                        eb_ = eb_ or ExprBuilder(g_.body)
                        out.append((g_, t_, {i_ + 1: strip(eb_.operand(a_)) for i_, a_ in enumerate(t_["args"])}))
        return out
    wfn = [f for f in tfns if f.path == "thor::writefile"]
    ctx.require(len(wfn) == 1, "anchor thor::writefile not found")
    sites = []           # (fn, path node, content node, line)
    work = []
    for g_, t_, am in call_sites_of(wfn[0]):
        work.append((g_, am[1], am[2], t_.get("ln"), 0))
    while work:
        g_, pn, cn, ln_, d_ = work.pop()
        root_g = prog.root_of(g_)
        has_args = any(x[0] == "arg" for x in walk(pn)) or any(x[0] == "arg" for x in walk(cn))
        if root_g.id == thor.id or not has_args or d_ > 4:
            sites.append((g_, pn, cn, ln_))
            continue
        callers = call_sites_of(root_g)
        if not callers:
            sites.append((g_, pn, cn, ln_))
        for g2, t2, am in callers:
            work.append((g2, bind_args(pn, am), bind_args(cn, am), t2.get("ln"), d_ + 1))

    def flow_names(node, depth=0):
        """names of the calls the value flows through, following the binary's own functions into their returned values"""
        names = set()
        for x in walk(node):
            if x[0] != "call":
                continue
            names.add(x[1])
            ids_ = [i_ for i_ in prog.callee_index().get(x[1], ()) if i_ in byid]
            if len(ids_) == 1 and depth < 4:
                h = byid[ids_[0]]
                heb = ExprBuilder(h.body)
                am = {i_ + 1: a_ for i_, a_ in enumerate(x[2])}
                from ..cfgq import returned_nodes as _rn
                for _, rn_ in _rn(h.body, heb):
                    names |= flow_names(bind_args(strip(rn_), am), depth + 1)
        return names
    found = False
    for g_, pn, cn, ln_ in sites:
        pstr = [n[1] for n in walk(pn) if n[0] == "s"]
        if "archivo_salida_json" not in pstr:
            continue
        found = True
        names = flow_names(cn)
        okp = (any(n.endswith("Model::as_json") for n in names) and any("TryFrom<&hulc::ctehexml::CtehexmlData>" in n for n in names)
               and any(n.endswith("parse_with_catalog_from_path") for n in names)
               and not any(n.endswith("energy_indicators") for n in names))
        if okp:
            ctx.ok("c01.thor", "c01.thor|writefile", "-o content = as_json(Model::try_from(&parse_with_catalog_from_path(..)))", g_.loc(ln_))
        else:
            ctx.violation("c01.thor", "c01.thor|writefile", "-o content is %s (flows through %s)" % (show(cn)[:160], sorted(n.split("::")[-1] for n in names)[:8]), g_.loc(ln_))
    if not found:
        ctx.violation("c01.thor", "c01.thor|writefile", "no writefile(<archivo_salida_json>, ..) call found in the thor binary (write sites: %s)"
                      % [show(pn)[:60] for _, pn, _, _ in sites][:4], thor.loc())
    # the file named with -o holds that JSON and nothing else: created or truncated, and written completely
    wf = [f for f in prog.fns.values() if f.path == "thor::writefile"]
    ctx.require(len(wf) == 1, "anchor thor::writefile not found")
    wf = wf[0]
    web = ExprBuilder(wf.body)
    wcalls = [(callee_name(t2) or "", t2) for b, t2 in wf.body.calls()]
    opened = [n for n, _ in wcalls if n.endswith(("fs::File::create", "fs::write", "fs::OpenOptions::open", "fs::File::options", "fs::File::create_new", "fs::File::open"))]
    if any(n.endswith(("fs::File::create", "fs::write")) for n in opened) and not any(n.endswith("OpenOptions::open") for n in opened):
        ctx.ok("c01.thor", "c01.thor|open", "the output file is created/truncated (%s)" % opened[0].split("::", 1)[-1], wf.loc())
    elif any(n.endswith("OpenOptions::open") for n in opened):
        def flag(name):
            for n, t2 in wcalls:
                if n.endswith("OpenOptions::" + name) and len(t2["args"]) == 2:
                    v = strip(web.operand(t2["args"][1]))
                    return v[1] == "true" if v[0] == "k" else None
            return False
        tr, ap = flag("truncate"), flag("append")
        if tr is None or ap is None:
            raise AnalysisError("thor::writefile: OpenOptions flags are not constants")
        if tr and not ap:
            ctx.ok("c01.thor", "c01.thor|open", "the output file is opened with truncate(true)", wf.loc())
        else:
            ctx.violation("c01.thor", "c01.thor|open", "the -o file is opened %s: when it already exists with longer content, what follows the new JSON stays in the file, which then "
                          "is not the model's JSON" % ("in append mode" if ap else "without truncate(true)"), wf.loc())
    else:
        raise AnalysisError("thor::writefile: cannot see how the output file is opened (%s)" % [n for n, _ in wcalls][:8])
    wr = [(n, t2) for n, t2 in wcalls if short_callee(n) in ("write_all", "write", "write_fmt", "write_vectored")]
    full = [1 for n, t2 in wr if short_callee(n) == "write_all" and len(t2["args"]) == 2 and strip(web.operand(t2["args"][1]))[:2] == ("arg", 2)]
    if any(n.endswith("fs::write") for n in opened) or (len(wr) == 1 and full):
        ctx.ok("c01.thor", "c01.thor|write", "the whole content is written once (write_all / fs::write)", wf.loc())
    else:
        ctx.violation("c01.thor", "c01.thor|write", "the content is not written by a single write_all(content) (%s): a partial write leaves a truncated document"
                      % [short_callee(n) for n, _ in wr], wf.loc())
    # same conversion pair as collect_hulc_data
    def convpair(f):
        """the conversion functions called by f or by the functions of its own crate it reaches"""
        s = set()
        for fid in ctx.cg.reachable([f.id]):
            g = prog.fns[fid]
            if g.crate != f.crate:
                continue
            for b, t2 in g.body.calls():
                nm = callee_name(t2) or ""
                if nm.endswith("parse_with_catalog_from_path") or "TryFrom<&hulc::ctehexml::CtehexmlData>" in nm:
                    s.add(nm)
        return s
    if convpair(thor) == convpair(chd) and len(convpair(chd)) == 2:
        ctx.ok("c01.thor", "c01.thor|pair", "thor and collect_hulc_data call the same conversion pair", thor.loc())
    else:
        ctx.violation("c01.thor", "c01.thor|pair", "conversion callees differ: thor=%s lib=%s" % (sorted(convpair(thor)), sorted(convpair(chd))), thor.loc())
    ctx.floor("c01", "obligations", len(ctx.instances), 10)


def check_propagated(ctx, fn, callee_sub, key):
    """the Result/Option returned by the (unique) call whose name contains callee_sub is consumed by `?`"""
    from ..dataflow import consumption
    body = fn.body
    sites = [(b, t) for b, t in body.calls() if callee_sub in (callee_name(t) or "") and "branch" not in (callee_name(t) or "")
             and "from_residual" not in (callee_name(t) or "")]
    if not sites:
        ctx.violation("c01.propagate", key, "call to %s not found in %s" % (callee_sub, fn.path), fn.loc())
        return
    for b, t in sites:
        kind, detail = consumption(body, b, t)
        if kind == "propagated":
            ctx.ok("c01.propagate", key, "%s(..)? propagated" % callee_sub, fn.loc(t.get("ln")))
        else:
            ctx.violation("c01.propagate", key, "result of %s is %s (%s), expected `?` propagation" % (callee_sub, kind, detail), fn.loc(t.get("ln")))


def run_fixture(ctx):
    prog = ctx.prog
    main = prog.fn_by_path("poscontrol::c01_main")
    seen, sinks = find_sinks(ctx, main.id)
    for (fid, name, ln, t) in sinks:
        fn = prog.fns[fid]
        if fn.path.endswith("c01_helper"):
            ctx.violation("c01.sink", "fixture", "println in helper", fn.loc(ln))
        if fn.path.endswith("c01_main") and "_print" in name:
            ok, val = check_print_site(ctx, fn, t, "c01")
            if not ok:
                ctx.violation("c01.template", "fixture", val, fn.loc(ln))

LEVEL_TEXT = ("Proof by who-may-call over an over-approximate call graph of the type-checked workspace: from the export tool's main no stdout "
              "sink is reachable except one print in cli_main, whose format template is `{}\\n` and whose argument is the Ok payload of "
              "Model::as_json of the un-mutated value collect_hulc_data(..)? returned; failures propagate to a non-zero exit before any print; "
              "thor -o writes as_json of the same conversion pair. Decides the 'nothing else on stdout / no JSON on failure' clauses for every "
              "input at once, which no finite set of runs can; does not decide 'exit status 0' (absence of panics) nor byte equality with thor.")
LEVEL_NOTE = ("Trusted: rustc MIR + Instance resolution, the driver/rules, external crates do not print to stdout (env_logger -> stderr); "
              "Linux cfg only (the cfg(windows) GUI is outside the claim).")
TECHNIQUE = "call-graph reachability (who-may-call) + def-use provenance and dominance on MIR"
