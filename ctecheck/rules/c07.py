"""C07 - Window U-value and solar factors follow their definitions."""
from ..cfgq import Scope, returned_nodes
from ..exprs import strip, short_callee, show, leaf_name, walk, origin_desc
from ..facts import AnalysisError
from ..formulas import LeafMap, compare, unwrap_some, fallback_chain, defs_of

ID = "C07"
LEVEL = "translation_validation"
RULE_TEXT = ("the return expressions of WinCons::u_value, hulc WinCons::u, WinCons::g_glwi normalised to rational functions over their inputs and compared with the "
             "reference formulas; the fallback chains of g_glshwi and of the downstream defaults; the None-propagation of missing glazing/frame")
EXPLANATION = ("D1 U = round2((1 + dU/100)(Ff*Uf + (1-Ff)*Ug)) and the parser's own copy agrees; D2 g_glwi = round2(0.90 g_gl;n), g_glshwi = [round2(user value), g_glwi]; "
               "D3 missing glazing or frame => None; D4 downstream defaults 0.77 / g_glwi / 5.7")
DECIDED = ["D1 U-value formula (two implementations)", "D2 solar factor formulas and precedence", "D3 no glazing/frame => no U-value", "D4 documented defaults downstream"]
UNDECIDED = ["'hence between glazing and frame values' (follows from D1 for Ff in [0,1]; a value statement)"]
ASSUMPTIONS = ["fround2 is round(100x)/100 (checked in C06)"]
LEVEL_TEXT = ("Translation validation of the leaf formulas: the code's expressions are read from MIR (def-use trees), normalised to quotients of polynomials with exact "
              "rational coefficients and compared with the formulas of the statement; Option fallback chains are compared in order. Decides the formulas for all inputs; "
              "a consequence over values ('between glazing and frame') is not separately decided.")
LEVEL_NOTE = "Trusted: rustc MIR; exact-rational reading of f32 literals (shortest decimal); f32 rounding is outside the comparison."
TECHNIQUE = "def-use expression trees normalised to rational functions and compared with reference formulas; ordered fallback-chain comparison"
FIXTURE_EXPECT = ["c07.formula"]


def some_return(prog, fn):
    sc = Scope(prog, fn)
    rns = returned_nodes(fn.body)
    vals = []
    others = []
    for bb, rn in rns:
        n = strip(sc._rw(rn))
        if n[0] == "agg" and n[1].split("::")[-1] in ("Some", "Ok"):
            vals.append(unwrap_some(n))
        elif n[0] == "call" and short_callee(n[1]) == "map" and "option::Option" in n[1] and len(n[2]) == 2:
            # `opt.map(|x| value(x))`: the value is the closure's (or function's) result on the payload; it is None exactly when `opt` is
            from ..exprs import mkproj
            from .c08 import closure_return
            payload = mkproj(strip(n[2][0]), ("@Some", ".0"))
            r = closure_return(prog, sc, n[2][1], payload)
            if r is None:
                others.append(n)
                continue
            vals.append(r)
            others.append(("call", "from_residual", (strip(n[2][0]),), None))
        else:
            others.append(n)
    return sc, vals, others


def run(ctx):
    prog = ctx.prog
    n = 0
    # D1
    f = prog.method("types::constructions::WinCons", None, "u_value")
    sc, vals, others = some_return(prog, f)
    ctx.require(len(vals) >= 1, "WinCons::u_value: no Some(..) return found")
    lm = LeafMap({"self.delta_u": "dU", "self.f_f": "Ff"}, [(r"get_frame\(.*\)(\?|@Some\.0)\.u_value$", "Uf"), (r"get_glass\(.*\)(\?|@Some\.0)\.u_value$", "Ug")])
    REF = "r2((1 + dU/100) * (Uf*Ff + Ug*(1 - Ff)))"
    if len(vals) == 1:
        compare(ctx, "c07.formula", "c07.formula|WinCons::u_value", vals[0], REF, lm, None, f.loc(), "U_W")
    else:
        # several results (an early return for a special case): each must be the formula, or the formula with the frame fraction at the bound its path tests
        from ..formulas import FNormalizer
        special = {"Ff = 0": "r2((1 + dU/100) * Ug)", "Ff = 1": "r2((1 + dU/100) * Uf)"}
        general = 0
        for v in vals:
            nz = FNormalizer(lm, {}, strict=False)
            code = nz.code(v)
            if not nz.unknown and code.equals(nz.ref(REF)):
                general += 1
                continue
            hit = [k_ for k_, r_ in special.items() if not nz.unknown and code.equals(nz.ref(r_))]
            if hit:
                ctx.ok("c07.formula", "c07.formula|WinCons::u_value|%s" % hit[0], "special case written out: U_W for %s" % hit[0], f.loc())
            else:
                ctx.violation("c07.formula", "c07.formula|WinCons::u_value|extra-result", "one of the results of WinCons::u_value is %s: neither the formula %s nor the formula for a "
                              "frameless or all-frame window (the thermal-bridge increment dU or a term is missing on that path)" % (str(code)[:120], REF), f.loc())
        if general >= 1:
            ctx.ok("c07.formula", "c07.formula|WinCons::u_value", "U_W = %s" % REF, f.loc())
        elif not any(i.key.startswith("c07.formula|WinCons::u_value|extra") for i in ctx.instances):
            raise AnalysisError("WinCons::u_value: none of its %d results is the general formula" % len(vals))
    # D3: a U-value exactly when glazing and frame both resolve (truth table over the two lookups, however they are tested: `?`, match, if let)
    from .. import tables as TB
    bad = []
    for has_glass, has_frame in ((True, True), (True, False), (False, True), (False, False)):
        def atom_value(n_):
            n_ = strip(n_)
            if n_[0] != "discr":
                return None
            inner = strip(n_[1])
            is_try = inner[0] == "call" and short_callee(inner[1]) == "branch"
            txt = show(inner)
            which = "glass" if "get_glass" in txt and "get_frame" not in txt else "frame" if "get_frame" in txt and "get_glass" not in txt else None
            if which is None:
                return None
            present = has_glass if which == "glass" else has_frame
            # Option discriminant: None = 0, Some = 1; ControlFlow of `?`: Continue = 0, Break = 1
            return ("0" if present else "1") if is_try else ("1" if present else "0")
        r = TB.eval_return(sc, atom_value, try_atoms=True)
        if isinstance(r, tuple) and r and r[0] == "stuck":
            raise AnalysisError("WinCons::u_value: cannot follow the test %s" % r[1])
        r = strip(r)
        is_some = r[0] == "agg" and r[1].split("::")[-1] == "Some"
        if is_some != (has_glass and has_frame):
            bad.append("glazing %s, frame %s -> %s" % ("found" if has_glass else "missing", "found" if has_frame else "missing", "a U-value" if is_some else "None"))
    if bad:
        ctx.violation("c07.none", "c07.none|WinCons::u_value", "a construction has a U-value exactly when glazing and frame resolve, but: %s" % "; ".join(bad), f.loc())
    else:
        ctx.ok("c07.none", "c07.none|WinCons::u_value", "U-value iff glazing and frame both resolve (4 cases)", f.loc())
    # sibling in the parser
    h = prog.method("bdl::db::windowcons::WinCons", None, "u")
    hsc, hvals, hothers = some_return(prog, h)
    ctx.require(len(hvals) == 1, "hulc WinCons::u: expected one Ok(..) return")
    lm2 = LeafMap({"self.deltau": "dU", "self.framefrac": "Ff"}, [(r"frame.*\?\.conductivity$|framesdb.*conductivity$", "Uf"), (r"glass.*\?\.conductivity$|glassesdb.*conductivity$", "Ug")])
    compare(ctx, "c07.formula", "c07.formula|hulc::WinCons::u", hvals[0], "(1 + dU/100) * (Uf*Ff + Ug*(1 - Ff))", lm2, None, h.loc(), "U_W (parser copy, unrounded)")
    # D2
    g = prog.method("types::constructions::WinCons", None, "g_glwi")
    gsc, gvals, gothers = some_return(prog, g)
    ctx.require(len(gvals) == 1, "WinCons::g_glwi: expected one Some(..) return")
    lm3 = LeafMap({}, [(r"get_glass\(.*\)(\?|@Some\.0)\.g_gln$", "ggln")])
    compare(ctx, "c07.formula", "c07.formula|WinCons::g_glwi", gvals[0], "r2(0.9 * ggln)", lm3, None, g.loc(), "g_gl;wi")
    if not (len(gothers) == 1 and "get_glass" in origin_desc(gothers[0])):
        ctx.violation("c07.none", "c07.none|WinCons::g_glwi", "missing glazing no longer yields None", g.loc())
    else:
        ctx.ok("c07.none", "c07.none|WinCons::g_glwi", "missing glazing => None", g.loc())
    gs = prog.method("types::constructions::WinCons", None, "g_glshwi")
    ssc = Scope(prog, gs)
    rns = returned_nodes(gs.body)
    want = ["fround2(self.g_glshwi)", "g_glwi(self,db)"]
    resid = [strip(ssc._rw(n_)) for _, n_ in rns if strip(ssc._rw(n_))[0] == "call" and short_callee(strip(ssc._rw(n_))[1]) == "from_residual"]
    if len(rns) > 1 and resid and not any("self.g_glshwi" in show(r_) for r_ in resid):
        # `x?` before the user value is looked at: the result is None whenever x is, whatever the user gave
        chain = ["None when %s is None" % origin_desc(resid[0])[:60]] + [show(strip(ssc._rw(n_)))[:80] for _, n_ in rns if strip(ssc._rw(n_)) not in resid]
    elif len(rns) > 1:
        # `match self.g_glshwi { Some(user) => Some(round2(user)), None => self.g_glwi(db) }`: the two arms, read by evaluating the test on the user value
        from .. import tables as TB
        chain = []
        for present in (True, False):
            def atom_value(n_):
                n_ = strip(n_)
                if n_[0] == "discr" and (leaf_name(strip(n_[1])) or "").endswith("self.g_glshwi"):
                    return "1" if present else "0"
                if n_[0] == "call" and short_callee(n_[1]) in ("is_some", "is_none") and (leaf_name(strip(n_[2][0])) or "").endswith("self.g_glshwi"):
                    return "1" if (present == (short_callee(n_[1]) == "is_some")) else "0"
                return None
            r = TB.eval_return(ssc, atom_value)
            if isinstance(r, tuple) and r and r[0] == "stuck":
                raise AnalysisError("WinCons::g_glshwi: cannot follow the test %s" % r[1])
            r = strip(r)
            if r[0] == "agg" and r[1].split("::")[-1] == "Some":
                r = strip(r[3][0])
            txt = origin_desc(r)
            import re as _re
            chain.append(_re.sub(r"\b(?:\w+::)+(?=\w+\()", "", txt.replace("self.g_glshwi@Some.0", "self.g_glshwi")))
    else:
        ctx.require(len(rns) == 1, "WinCons::g_glshwi: expected a single return expression")
        chain = fallback_chain(prog, ssc, ssc._rw(rns[0][1]))
    if chain == want:
        ctx.ok("c07.chain", "c07.chain|WinCons::g_glshwi", "g_gl;sh;wi = [round2(user value), g_gl;wi]", gs.loc())
    else:
        ctx.violation("c07.chain", "c07.chain|WinCons::g_glshwi", "fallback chain is %s, expected %s (user value first, unshaded factor otherwise)" % (chain, want), gs.loc())
    # D4 downstream defaults in EnergyProps::from
    ep = prog.method("energy::props::EnergyProps", "convert::From", "from")
    esc = Scope(prog, ep)
    lits = []
    for sc_ in esc.all_scopes():       # the literal may sit in a private constructor of the same module (`WinConsProps::from_cons`)
        for b, i, s in sc_.body.statements():
            if s["s"] == "assign" and s["rv"]["r"] == "agg" and s["rv"].get("adt", "").endswith("WinConsProps"):
                lits.append((sc_.rvalue(s["rv"]), s.get("ln")))
                esc_lit = sc_
    ctx.require(len(lits) == 1, "WinConsProps literal not found in EnergyProps::from")
    lit, ln = lits[0]
    fields = dict(zip(lit[2], lit[3]))
    c1 = fallback_chain(prog, esc_lit, fields["g_glwi"])
    c2 = fallback_chain(prog, esc_lit, fields["g_glshwi"])
    w1 = ["g_glwi(model.cons.wincons[],model.cons)", "0.77"]
    if c1 == w1:
        ctx.ok("c07.chain", "c07.chain|props.g_glwi", "g_glwi = [computed, 0.77]", ep.loc(ln))
    else:
        ctx.violation("c07.chain", "c07.chain|props.g_glwi", "chain %s, expected %s" % (c1, w1), ep.loc(ln))
    if len(c2) == 3 and c2[0].startswith("g_glshwi(") and c2[1:] == w1:
        ctx.ok("c07.chain", "c07.chain|props.g_glshwi", "g_glshwi = [computed, g_glwi (itself [computed, 0.77])]", ep.loc(ln))
    else:
        ctx.violation("c07.chain", "c07.chain|props.g_glshwi", "chain %s, expected [g_glshwi(..), g_glwi(..), 0.77]" % (c2,), ep.loc(ln))
    uv = origin_desc(strip(fields["u_value"]))
    if "u_value(model.cons.wincons[],model.cons)" in uv:
        ctx.ok("c07.chain", "c07.chain|props.u_value", "WinConsProps.u_value = WinCons::u_value (None when glazing/frame are missing)", ep.loc(ln))
    else:
        ctx.violation("c07.chain", "c07.chain|props.u_value", "WinConsProps.u_value is %s" % uv, ep.loc(ln))
    ctx.programs = 4


def run_fixture(ctx):
    prog = ctx.prog
    f = prog.fn_by_path("poscontrol::c07_u")
    sc, vals, others = some_return(prog, f)
    lm = LeafMap({"du": "dU", "ff": "Ff", "uf": "Uf", "ug": "Ug"})
    compare(ctx, "c07.formula", "fixture", vals[0], "(1 + dU/100) * (Uf*Ff + Ug*(1 - Ff))", lm, None, f.loc(), "fixture U")
