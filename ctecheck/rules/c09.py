"""C09 - n50 follows the DB-HE air-permeability formula."""
from ..cfgq import Scope, returned_nodes, bool_taken
from ..exprs import strip, short_callee, show, leaf_name, walk, origin_desc
from ..facts import AnalysisError
from ..formulas import LeafMap, compare, unwrap_some, fallback_chain, updates, FNormalizer
from .. import tables as TB

ID = "C09"
LEVEL = "translation_validation"
RULE_TEXT = ("the wall filter of N50Data::from as a truth table over (is_tenv, bounds); every accumulator update and derived field as a normalised expression compared "
             "with the DB-HE formula; the guards of the divisions; the C_o table and the provenance of the volume in EnergyProps")
EXPLANATION = ("D1 scope = envelope elements in contact with outside air; D2 A_o = sum(area_net x multiplier), A_h / A_h C_h per wall times the multiplier, "
               "C_h = [wincons c_100, 100]; D3 C_o = 16 (new) / 29 (existing), V = net envelope volume; D4 n50_ref = 0.629 (A_o C_o + sum A_h C_h)/V guarded by V > 0.001, "
               "with a test value n50 = test and C_o solved from the same equation (guarded), otherwise n50 = n50_ref and C_o = reference")
DECIDED = ["D1 scope predicate", "D2 accumulators", "D3 C_o table and volume", "D4 forward and inverse formulas and their guards",
           "D6 accumulation loops end only on iterator exhaustion",
           "D7 V counts every space: the floor area is found from either side (shared with C11)",
           "D8 every path to a return of N50Data::from passes through the assignment of n50"]
UNDECIDED = ["numeric agreement on real models"]
ASSUMPTIONS = ["0.629 = (50/100)^0.67 as in DB-HE"]
LEVEL_TEXT = ("Translation validation: the scope filter is evaluated on all 8 combinations of (envelope membership, boundary kind); each accumulator update and each "
              "derived field of N50Data is normalised and compared with the statement's formula; the inverse equation is checked to be the forward one solved for C_o "
              "(same 0.629); the guards are read as dominating comparisons. Decides these for every model; numeric agreement on concrete models is not decided.")
LEVEL_NOTE = "Trusted: rustc MIR; exact-rational reading of literals."
TECHNIQUE = "finite truth-table evaluation of the scope predicate + normalised formula comparison of field updates on MIR + must-pass-through (n50 assigned on every path to a return)"
FIXTURE_EXPECT = ["c09.formula"]


def eval_path_conditions(sc, conds, atoms):
    """do all the (condition node, switch edge) pairs hold under the assignment?  -> bool or ('stuck', text)"""
    prev = atoms.inliner
    atoms.inliner = lambda n: TB.inline_predicate(sc.prog, n, atoms, 0)
    try:
        for (n, tk) in conds:
            v = atoms.value(strip(n))
            if v is None:
                return ("stuck", show(strip(n))[:120])
            if tk.startswith("else:"):
                holds = v not in tk[5:].split(",")
            else:
                holds = v == tk
            if not holds:
                return False
        return True
    finally:
        atoms.inliner = prev


def scope_from_update(sc, bb, elem_prefix):
    """the selection that an accumulation site is subject to: the conditions on the iterated element that dominate it (loop `continue`s, nested
    ifs, the call sites of the helpers it sits in), as a pseudo-predicate for scope_table"""
    conds = []
    for (s_, d, n, tk) in sc.conditions(bb):
        txt = show(strip(n))
        if elem_prefix in txt and not (strip(n)[0] == "discr" and ("next(" in txt or "branch(" in txt)):
            conds.append((n, tk))
    return ("conds", sc, conds)


def scope_table(ctx, rule, key, sc, fields, enums, expect, loc):
    """truth table of a selection predicate (one filter closure or the conjunction of several over the same source) against the statement.
    Comparisons on quantities that are not atoms of the statement are enumerated as free atoms: a selection that depends on one is a finding."""
    import itertools
    scs = sc if isinstance(sc, (list, tuple)) else [sc]
    names = list(fields)
    doms = [enums[f] if f in enums else [True, False] for f in names]
    bad = []
    depends = {}
    tab = {}
    for combo in itertools.product(*doms):
        free = set()
        results = set()
        # discover free atoms, then enumerate them
        for _round in range(3):
            results = set()
            stuck = None
            for fv in itertools.product((True, False), repeat=len(free)):
                at = TB.Atoms(dict(zip(names, combo)), enums)
                at.free_values = dict(zip(sorted(free), fv))
                val = True
                for s1 in scs:
                    v = eval_path_conditions(s1[1], s1[2], at) if isinstance(s1, tuple) else TB.eval_predicate(s1, at)
                    if not isinstance(v, bool):
                        stuck = v
                        break
                    val = val and v
                new = at.free_seen - free
                if stuck is not None:
                    if new:
                        break
                    raise AnalysisError("%s: predicate cannot be evaluated for %s (%s)" % (key, combo, stuck))
                results.add((fv, val))
            if stuck is not None and new:
                free |= new
                if len(free) > 4:
                    raise AnalysisError("%s: too many free conditions %s" % (key, sorted(free)))
                continue
            break
        vals = {v for _, v in results}
        want = expect(dict(zip(names, combo)))
        if len(vals) > 1:
            for fr in sorted(free):
                depends.setdefault(fr, []).append(dict(zip(names, combo)))
            val = None
        else:
            val = vals.pop()
        tab[combo] = val
        if val is not None and val != want:
            bad.append("%s -> %s (expected %s)" % (dict(zip(names, combo)), val, want))
    if depends:
        ctx.violation(rule, key, "the selection also depends on %s, which is not part of the statement's scope: elements are included or left out by it (e.g. for %s)"
                      % (" and ".join("`%s`" % d for d in sorted(depends)), list(depends.values())[0][0]), loc)
    elif bad:
        ctx.violation(rule, key, "scope predicate differs from the statement on %d of %d cases: %s" % (len(bad), len(tab), "; ".join(bad[:3])), loc)
    else:
        ctx.ok(rule, key, "truth table over %s agrees on all %d cases" % (names, len(tab)), loc)
    return tab


def guard_of(upd):
    """dominating comparisons at the update site: list of (lhs leaf, op, const, taken bool)"""
    sc = upd["scope"]
    out = []
    for (_, d, n, tk) in sc.conditions(upd["bb"]):
        n = strip(n)
        if n[0] == "bin" and n[1] in ("Gt", "Ge", "Lt", "Le") and strip(n[3])[0] == "k":
            out.append((leaf_name(strip(n[2])), n[1], strip(n[3])[1], bool_taken(tk)))
        elif n[0] == "discr":
            out.append((origin_desc(strip(n[1])), "discr", tk, None))
    return out


def run(ctx):
    prog = ctx.prog
    f = prog.method("energy::indicators::n50::N50Data", "convert::From", "from")
    from ..loops import check_no_early_exit
    check_no_early_exit(ctx, "c09.loop", prog, f, "n50")
    # the result is one record filled step by step (areas, reference permeabilities, then the test or reference branch): every path to a return must pass
    # through an assignment of `n50` - a return before it hands back a record whose later fields still hold their defaults (n50 = 0 with a blower-door result)
    body = f.body
    sets = set()
    for b_ in range(body.n):
        for st in body.blocks[b_]["st"]:
            if st["s"] == "assign" and isinstance(st["p"], dict) and st["p"].get("p") and str(st["p"]["p"][-1]) == ".n50":
                sets.add(b_)
    ctx.require(sets, "N50Data::from: no assignment to the n50 field found")
    rets = [b_ for b_ in range(body.n) if body.blocks[b_]["term"]["t"] == "return"]
    seen, todo, skipped = set(), [0], False
    while todo:
        b_ = todo.pop()
        if b_ in seen or b_ in sets:
            continue
        seen.add(b_)
        if b_ in rets:
            skipped = True
        todo += [x for x in body.succs(b_)]
    if not skipped:
        ctx.ok("c09.formula", "c09.formula|single-exit", "every path through N50Data::from assigns n50 before it returns", f.loc())
    else:
        ctx.violation("c09.formula", "c09.formula|single-exit", "N50Data::from can return before n50 is assigned: on that path the fields filled later (the blower-door / reference "
                      "branch, n50, n50_ref) keep their defaults", f.loc())
    root = Scope(prog, f)
    bt = [v["name"] for v in prog.adt("bemodel::types::common::BoundaryType")["variants"]]
    filt = [ch for (b, t, ch) in root.children() if ch.via[0] == "filter" and ((ch.via[1].source_name() if ch.via[1] is not None else None) or "").endswith("props.walls")]
    if not filt:
        # no filter closure: the selection may be written as `continue`s in a for loop; read it off the site that accumulates the opaque area
        site = [u for u in updates(root) if u["op"] == "+=" and u["dest"].endswith("walls_a") and "props.walls[]" in show(u["term"])]
        ctx.require(len(site) == 1, "N50Data::from: neither a wall filter nor a single accumulation of the opaque area over props.walls was found")
        filt = [scope_from_update(site[0]["scope"], site[0]["bb"], "props.walls[]")]
    scope_table(ctx, "c09.scope", "c09.scope|walls", filt, ["is_tenv", "bounds"], {"bounds": bt},
                lambda a: a["is_tenv"] and a["bounds"] == "EXTERIOR", f.loc())
    # windows of the wall: win.wall == wall_id
    wfil = [ch for sc in root.all_scopes() for (b, t, ch) in sc.children() if ch.via[0] == "filter" and ((ch.via[1].source_name() if ch.via[1] is not None else None) or "").endswith("props.windows")]
    ctx.require(len(wfil) == 1, "N50Data::from: window filter not found")
    rn = returned_nodes(wfil[0].body)
    n0 = strip(wfil[0]._rw(rn[0][1])) if len(rn) == 1 else None
    d0 = origin_desc(n0) if n0 else ""
    if n0 is not None and n0[0] == "call" and short_callee(n0[1]) == "eq" and "props.windows[].1.wall" in d0 and "props.walls[].0" in d0:
        ctx.ok("c09.scope", "c09.scope|windows", "windows are taken through their wall (win.wall == wall_id)", f.loc())
    else:
        ctx.violation("c09.scope", "c09.scope|windows", "window filter is %s, expected win.wall == wall_id" % d0[:120], f.loc())

    ups = updates(root)
    byd = {}
    for u in ups:
        byd.setdefault(u["dest"], []).append(u)
    lm = LeafMap({"win_ah": "winah", "win_ah_ch": "winahch", "data.walls_a": "Ao", "data.windows_a": "Ah", "data.windows_c_a": "AhCh", "data.vol": "V",
                  "data.walls_c_ref": "Coref", "data.walls_c_a_ref": "AoCoref", "data.n50_ref": "n50ref", "data.walls_c": "Co", "props.global.c_o_100": "Co100",
                  "props.global.vol_env_net": "Vnet", "props.global.n_50_test_ach@Some.0": "test", "n50test": "test",
                  "props.walls[].1.area_net": "anet", "props.walls[].1.multiplier": "mult", "props.windows[].1.area": "awin", "win_c_100": "ch"})
    spec = [
        ("win_ah", "+=", "awin"), ("win_ah_ch", "+=", "awin * ch"),
        ("data.walls_a", "+=", "anet * mult"), ("data.windows_a", "+=", "winah * mult"), ("data.windows_c_a", "+=", "winahch * mult"),
        ("data.windows_c", "=", "AhCh / Ah"), ("data.walls_c_ref", "=", "Co100"), ("data.walls_c_a_ref", "=", "Ao * Coref"),
        ("data.n50_ref", "=", "0.629 * (AoCoref + AhCh) / V"),
    ]
    nacc = 0
    for dest, op, ref in spec:
        us = [u for u in byd.get(dest, []) if u["op"] == op and not (u["term"][0] == "k")]
        key = "c09.formula|%s" % dest
        if len(us) != 1:
            ctx.violation("c09.formula", key, "expected exactly one `%s %s ..` update, found %d" % (dest, op, len(us)), f.loc())
            continue
        nacc += 1
        compare(ctx, "c09.formula", key, us[0]["term"], ref, lm, None, us[0]["scope"].fn.loc(us[0]["line"]), "%s %s" % (dest, op))
    # guards
    def has_guard(u, leaf, const):
        return any(g[0] == leaf and g[1] == "Gt" and float(g[2]) == const and g[3] is True for g in guard_of(u))
    for dest, leaf in (("data.windows_c", "data.windows_a"), ("data.n50_ref", "data.vol")):
        us = [u for u in byd.get(dest, []) if u["op"] == "=" and u["term"][0] != "k"]
        key = "c09.guard|%s" % dest
        if us and has_guard(us[0], leaf, 0.001):
            ctx.ok("c09.guard", key, "computed only when %s > 0.001 (0 otherwise, from Default)" % leaf, f.loc(us[0]["line"]))
        else:
            ctx.violation("c09.guard", key, "division by %s is no longer guarded by `> 0.001`: n50 is not 0 when the volume is 0" % leaf, f.loc())
    # test branch / no-test branch
    n50 = byd.get("data.n50", [])
    wc = byd.get("data.walls_c", [])
    test_assign = [u for u in n50 if leaf_name(u["term"]) in ("n50test", "props.global.n_50_test_ach@Some.0")]
    ref_assign = [u for u in n50 if leaf_name(u["term"]) == "data.n50_ref"]
    if len(test_assign) == 1 and len(ref_assign) == 1:
        ctx.ok("c09.formula", "c09.formula|data.n50", "n50 = blower-door value when present, n50_ref otherwise", f.loc(test_assign[0]["line"]))
    else:
        ctx.violation("c09.formula", "c09.formula|data.n50", "n50 assignments are %s" % [origin_desc(u["term"]) for u in n50], f.loc())
    inv = [u for u in wc if u["term"][0] == "bin"]
    refs = [u for u in wc if leaf_name(u["term"]) == "data.walls_c_ref"]
    if len(inv) == 1:
        compare(ctx, "c09.formula", "c09.formula|data.walls_c|inverse", inv[0]["term"], "((test * V) / 0.629 - AhCh) / Ao", lm, None, f.loc(inv[0]["line"]), "C_o from the test value")
        # the inverse is the forward equation solved for walls_c: 0.629*(Ao*Co + AhCh)/V == test
        nz = FNormalizer(lm, {})
        co = nz.code(inv[0]["term"])
        fwd = nz.ref("0.629 * (Ao * X + AhCh) / V")
        # substitute X := co  <=>  0.629*(Ao*co + AhCh)/V - test == 0
        from ..exprs import Rat, Poly
        lhs = (Rat(Poly.const("0.629")) * (Rat(Poly.atom("Ao")) * co + Rat(Poly.atom("AhCh")))).div(Rat(Poly.atom("V")))
        if lhs.equals(Rat(Poly.atom("test"))):
            ctx.ok("c09.formula", "c09.formula|inverse-consistency", "substituting the reported C_o into the forward equation gives back the test value", f.loc(inv[0]["line"]))
        else:
            ctx.violation("c09.formula", "c09.formula|inverse-consistency", "the reported wall permeability does not satisfy the forward equation (different constant?): forward gives %s" % lhs, f.loc(inv[0]["line"]))
        if has_guard(inv[0], "data.walls_a", 0.001):
            ctx.ok("c09.guard", "c09.guard|data.walls_c", "inverse computed only when A_o > 0.001", f.loc(inv[0]["line"]))
        else:
            ctx.violation("c09.guard", "c09.guard|data.walls_c", "division by A_o is not guarded", f.loc(inv[0]["line"]))
    else:
        ctx.violation("c09.formula", "c09.formula|data.walls_c|inverse", "expected one inverse formula for walls_c, found %d" % len(inv), f.loc())
    if len(refs) == 2:
        ctx.ok("c09.formula", "c09.formula|data.walls_c|reference", "walls_c = C_o reference without test value or without opaque area", f.loc())
    else:
        ctx.violation("c09.formula", "c09.formula|data.walls_c|reference", "walls_c falls back to the reference value at %d sites, expected 2" % len(refs), f.loc())
    # vol
    lits = [(root.rvalue(s["rv"]), s.get("ln")) for b, i, s in f.body.statements() if s["s"] == "assign" and s["rv"]["r"] == "agg" and s["rv"].get("adt", "").endswith("N50Data")]
    okv = any(leaf_name(strip(n[3][n[2].index("vol")])) == "props.global.vol_env_net" for n, ln in lits if "vol" in n[2])
    if okv:
        ctx.ok("c09.formula", "c09.formula|data.vol", "V = props.global.vol_env_net", f.loc())
    else:
        ctx.violation("c09.formula", "c09.formula|data.vol", "the volume is not the net envelope volume", f.loc())
    # C_h chain: [wincons[cons].c_100, 100]
    chs = [u for u in ups if u["dest"] == "win_c_100"]
    vals = set()
    for u in chs:
        t = u["term"]
        ch = fallback_chain(prog, u["scope"], t[1] if (t[0] == "proj" and t[2] == ("@Some", ".0")) else t)
        vals.add(ch[0])
    vals = sorted(vals)
    if vals == ["100.0", "map:get(props.wincons,props.windows[].1.cons)@Some.0.c_100"] or (len(vals) == 2 and "100.0" in vals and any(v.endswith(".c_100") and "props.wincons" in v for v in vals)):
        ctx.ok("c09.chain", "c09.chain|C_h", "C_h = construction's c_100, 100 when the window has no construction", f.loc())
    else:
        ctx.violation("c09.chain", "c09.chain|C_h", "window permeability alternatives are %s, expected [wincons.c_100, 100.0]" % vals, f.loc())
    # D3 C_o table in EnergyProps::from
    ep = prog.method("energy::props::EnergyProps", "convert::From", "from")
    esc = Scope(prog, ep)
    # the `is_tenv` this indicator filters on is the envelope membership of the statement (the truth table C11 decides, evaluated here too)
    from .c11 import check_envelope_membership, check_floor_either_side
    check_envelope_membership(ctx, prog, ep, esc, rule="c09.scope")
    # V is the sum of floor area x net height over the envelope's spaces: the floor area must find the floor from either side (the rule C11 owns)
    check_floor_either_side(ctx, prog, rule="c09.volume")
    # support of the C_h fallback (`props.wincons.get(cons)` is None <=> the model defines no such construction, then 100): the keys of props.wincons
    # are the ids of model.cons.wincons and nothing else - an entry made up for an undefined id would silently disable the fallback (and the 0.77 / 5.7 ones)
    from ..mir import callee_name as _cn
    nins = 0
    for sc_ in esc.all_scopes():
        for b_, t_ in sc_.body.calls():
            nm_ = short_callee(_cn(t_) or "")
            if nm_ not in ("insert", "entry") or "BTreeMap" not in (_cn(t_) or "") and "btree" not in (_cn(t_) or "").lower():
                continue
            if len(t_["args"]) < 2:
                continue
            recv_ = show(strip(sc_.operand(t_["args"][0])))
            if "wincons" not in recv_ or "cons.wincons" in recv_:
                continue
            nins += 1
            kn_ = strip(sc_.operand(t_["args"][1]))
            kl_ = leaf_name(kn_) or show(kn_)
            key_ = "c09.support|props.wincons-keys|%d" % nins
            if kl_.endswith("cons.wincons[].id"):
                ctx.ok("c09.support", key_, "props.wincons gets an entry under the id of a construction the model defines (%s)" % kl_[-40:], sc_.fn.loc(t_.get("ln")))
            else:
                ctx.violation("c09.support", key_, "props.wincons gets an entry under %s, not under the id of a defined construction: for such a window the lookup "
                              "succeeds and the documented fallbacks (C_h = 100, g = 0.77, U = 5.7) never apply" % kl_[:80], sc_.fn.loc(t_.get("ln")))
    ctx.floor("c09.support", "insertions into props.wincons", nins, 1)
    from .c06 import local_defs
    co = local_defs(esc, "c_o_100")
    ctx.require(len(co) == 1, "EnergyProps::from: c_o_100 not found")
    rows = {}
    for b, n, ln in next(iter(co.values())):
        conds = [(strip(c), bool_taken(tk)) for (_, d, c, tk) in esc.conditions(b)]
        cc = [(leaf_name(c), v) for c, v in conds if leaf_name(c) and leaf_name(c).endswith("is_new_building")]
        if cc and n[0] == "k":
            rows[cc[-1][1]] = float(n[1])
    if rows == {True: 16.0, False: 29.0}:
        ctx.ok("c09.table", "c09.table|C_o", "C_o = 16 (new building) / 29 (existing)", ep.loc())
    else:
        ctx.violation("c09.table", "c09.table|C_o", "C_o table is %s, expected new -> 16, existing -> 29" % rows, ep.loc())
    ctx.programs = nacc + 4


def run_fixture(ctx):
    prog = ctx.prog
    f = prog.fn_by_path("poscontrol::c09_n50")
    sc = Scope(prog, f)
    rns = [strip(sc._rw(rn)) for _, rn in returned_nodes(f.body)]
    compare(ctx, "c09.formula", "fixture", rns[0], "0.629 * (a * c + w) / v", LeafMap({"a": "a", "c": "c", "w": "w", "v": "v"}), None, f.loc(), "fixture n50")
