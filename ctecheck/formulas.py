"""A7 helpers for the formula rules: named definitions with their branch conditions, comparison with reference expressions."""
import re

from .cfgq import Scope, returned_nodes, bool_taken
from .exprs import ExprBuilder, is_arith_op, strip, short_callee, show, leaf_name, walk, Normalizer, origin_desc, Rat, Poly
from .facts import AnalysisError


class LeafMap(dict):
    """leaf name -> symbol; keys may be exact names or ('re', pattern) tuples"""

    def __init__(self, exact=None, patterns=None):
        super().__init__(exact or {})
        self.patterns = [(re.compile(p), s) for p, s in (patterns or [])]

    def __contains__(self, k):
        return dict.__contains__(self, k) or any(p.search(k) for p, _ in self.patterns)

    def __getitem__(self, k):
        if dict.__contains__(self, k):
            return dict.__getitem__(self, k)
        for p, s in self.patterns:
            if p.search(k):
                return s
        raise KeyError(k)


class FNormalizer(Normalizer):
    """Normalizer whose leaves may also be lookups (`get_x(..)?.field`), named through origin_desc"""

    nodemap = ()      # [(node, symbol)]: sub-expressions another rule has already decided, taken as that symbol

    def code(self, n):
        n = strip(n)
        for (nd, sym) in self.nodemap:
            if n == nd:
                return Rat(Poly.atom(sym))
        if n[0] == "agg" and n[1].split("::")[-1] in ("Some", "Ok") and len(n[3]) == 1:
            return self.code(n[3][0])
        arith = n[0] == "call" and (short_callee(n[1]) in self.FUNCS or short_callee(n[1]) in self.REPO_FUNCS or short_callee(n[1]) in self.callmap
                                    or (short_callee(n[1]) in ("add", "sub", "mul", "div", "neg") and is_arith_op(n[1])))
        if n[0] in ("proj", "call") and leaf_name(n) is None and not arith:
            nm = origin_desc(n, -3)
            if nm in self.leafmap:
                return Rat(Poly.atom(self.leafmap[nm]))
            if n[0] == "call":
                # a helper that only names a sub-expression is looked through
                from . import cfgq
                inl = cfgq.inline_helper(None, n)
                if inl is not None:
                    return self.code(strip(inl))
        return super().code(n)


def unwrap_some(n):
    n = strip(n)
    while n[0] == "agg" and n[1].split("::")[-1] in ("Some", "Ok") and len(n[3]) == 1:
        n = strip(n[3][0])
    return n


def defs_of(sc, name):
    """definitions of the user variable `name` in this scope: [(node, [(cond node, value bool)], line)]"""
    body = sc.body
    out = []
    for l, nm in body.names.items():
        if nm != name:
            continue
        for d in body.defs().get(l, []):
            if d[0] == "st":
                if not isinstance(d[3]["p"], int):
                    continue
                node = sc.rvalue(d[3]["rv"])
                ln = d[3].get("ln")
            else:
                node = sc._rw(sc.eb.call_node(d[2], d[1]))
                ln = d[2].get("ln")
            conds = [(strip(n), bool_taken(tk), tk) for (_, dd, n, tk) in sc.conditions(d[1])]
            out.append((strip(node), conds, ln))
    return out


def compare(ctx, rule, key, node, ref_text, leafmap, callmap=None, loc=None, what="", nodemap=()):
    """normalise `node` and the reference; ok / violation.  Unknown leaves or shapes are violations with both forms printed
    when the expression is otherwise well-formed, AnalysisError when it cannot be read at all."""
    nz = FNormalizer(leafmap, callmap or {}, strict=False)
    nz.nodemap = tuple(nodemap)
    code = nz.code(node)
    ref = nz.ref(ref_text)
    if nz.unknown:
        # an unknown *helper call* that merely iterates (no data-dependent case distinction in its body) is lack of understanding, not
        # evidence: cannot decide.  A new leaf quantity, or a helper that adds a case distinction the reference does not have, is a finding.
        opaque = opaque_helpers(ctx.prog, node)
        if opaque and all(not has_case_split for (_, has_case_split) in opaque) and all("(" in u for u in nz.unknown):
            raise AnalysisError("%s: goes through helper(s) %s that this rule cannot read (loops, no case distinction): cannot decide" % (what or key, [n for n, _ in opaque]))
        extra = ""
        if any(cs for _, cs in opaque):
            extra = "; helper %s adds a case distinction the reference formula does not have" % [n for n, cs in opaque if cs]
        # the same formula over quantities this rule cannot name (a struct field or tuple component introduced by a refactoring): if renaming the unknown
        # leaves onto the reference symbols the code does not use makes the two equal, the shape is right and only the identity of the quantities is open -
        # cannot decide.  When no renaming does, the shape itself differs: a finding whatever the names are.
        if not any(cs for _, cs in opaque) and _iso_under_renaming(nz, code, ref):
            raise AnalysisError("%s has the shape of the reference (%s) over quantities this rule cannot identify (%s): cannot decide"
                                % (what or key, ref_text, sorted(set(nz.unknown))[:5]))
        ctx.violation(rule, key, "%s uses quantities the reference formula does not have: %s%s (code: %s; reference: %s)"
                      % (what or key, sorted(set(nz.unknown))[:5], extra, str(code)[:200], ref_text), loc)
        return False
    if code.equals(ref):
        ctx.ok(rule, key, "%s = %s" % (what or key, ref_text), loc)
        return True
    ctx.violation(rule, key, "%s normalises to %s, reference %s = %s" % (what or key, str(code)[:300], ref_text, str(ref)[:200]), loc)
    return False


def _iso_under_renaming(nz, code, ref):
    """is there a bijection from the unknown leaves of `code` onto reference symbols `code` does not use that makes code == ref?"""
    import itertools
    from .exprs import Poly, Rat
    unk = sorted({a for a in (code.n.atoms() | code.d.atoms()) if a.startswith("?")})
    if any("(" in a for a in unk):
        return False        # an unknown *expression* (a call, a chain with adaptors) is not a quantity that merely changed its name
    ref_atoms = ref.n.atoms() | ref.d.atoms()
    code_known = (code.n.atoms() | code.d.atoms()) - set(unk)
    free = sorted(a for a in ref_atoms - code_known if "#" not in a)
    if not unk or len(unk) != len(free) or len(unk) > 6:
        return False
    # only a wholesale re-spelling (none of the reference's quantities is recognised) can be a mere change of names; when the others are recognised and one
    # is not, a known quantity has been replaced by something else (`people_latent` for `people_sensible`): that is a finding
    if any("#" not in a for a in code_known & ref_atoms):
        return False

    def rename(poly, m):
        t = {}
        for mono, c in poly.t.items():
            d = {}
            for a, p_ in mono:
                a2 = m.get(a, a)
                d[a2] = d.get(a2, 0) + p_
            k = tuple(sorted(d.items()))
            t[k] = t.get(k, 0) + c
        return Poly(t)
    for perm in itertools.permutations(free):
        m = dict(zip(unk, perm))
        if Rat(rename(code.n, m), rename(code.d, m)).equals(ref):
            return True
    return False


def opaque_helpers(prog, node):
    """workspace functions called inside the expression that could not be inlined: [(short name, has a data-dependent branch)]"""
    from . import cfgq
    out = []
    for x in walk(node):
        if x[0] != "call":
            continue
        ids = prog.callee_index().get(x[1], ())
        if len(ids) != 1:
            continue
        fn = prog.fns[next(iter(ids))]
        if short_callee(x[1]) in VOCAB or short_callee(x[1]) in Normalizer.REPO_FUNCS:
            continue
        inl = cfgq.inline_helper(prog, x)
        if inl is not None:
            # looked through; what it expands to may still be unreadable (an iterator pipeline): a selecting adaptor is a case distinction
            sel = [short_callee(y[1]) for y in walk(inl) if y[0] == "call" and short_callee(y[1]) in ("filter", "filter_map", "take_while", "skip_while", "find", "position")]
            if any(y[0] == "call" and short_callee(y[1]) in ("sum", "fold", "product", "map", "for_each") for y in walk(inl)):
                out.append((short_callee(x[1]), bool(sel)))
            out += opaque_helpers(prog, inl)
            continue
        split = False
        for bf in [fn] + prog.closures_of(fn):
            for b in range(bf.body.n):
                t = bf.body.blocks[b]["term"]
                if t["t"] == "switch" and not bf.body.is_cleanup(b):
                    d = strip(ExprBuilder(bf.body).operand(t["d"]))
                    # loop conditions (next() discriminants) and `?` are not case distinctions on data
                    txt = show(d)
                    if d[0] == "discr" and ("next(" in txt or "branch(" in txt):
                        continue
                    split = True
        out.append((short_callee(x[1]), split))
    return out


def cond_text(conds):
    return " & ".join("%s=%s" % (origin_desc(n), v) for n, v, tk in conds)


def _short(d):
    """drop the owner/module prefix of a method descriptor: `radiation::g_glwi(a,b)` -> `g_glwi(a,b)`"""
    return re.sub(r"^(\w+::)+(?=\w+\()", "", d)


# Quantities the property statements name and that have a rule of their own: a chain element that is a call of one of these is
# compared by name; any other straight-line helper is looked through (its returned expression takes its place).
VOCAB = {"global_ventilation_rate", "g_glwi", "g_glshwi", "u_value", "fround2", "fround3", "area", "area_net", "height_net", "height_gross",
         "resistance", "get", "get_wallcons", "get_wincons", "get_space", "get_wall", "get_glass", "get_frame", "get_material"}


def fallback_chain(prog, sc, node, depth=0):
    """ordered alternatives of an Option fallback expression, as descriptor strings"""
    from .cfgq import closure_id_of, closure_env, fn_item_of
    n = strip(node)
    if depth > 6:
        return [_short(origin_desc(n))]
    if n[0] == "var":
        # `let x = match opt { Some(v) => v, None => fallback };` (or if-let): a local with two definitions, one of them the payload of an Option
        defs = []
        for d in sc.body.defs().get(n[1], []):
            if d[0] == "st" and isinstance(d[3]["p"], int):
                defs.append(strip(sc.rvalue(d[3]["rv"])))
            elif d[0] != "st":
                defs.append(strip(sc._rw(sc.eb.call_node(d[2], d[1]))))
        pay = [d for d in defs if d[0] == "proj" and len(d[2]) >= 2 and tuple(d[2][-2:]) == ("@Some", ".0")]
        if len(defs) == 2 and len(pay) == 1:
            other = [d for d in defs if d is not pay[0]][0]
            from .exprs import mkproj
            opt = mkproj(strip(pay[0][1]), tuple(pay[0][2][:-2])) if len(pay[0][2]) > 2 else strip(pay[0][1])
            return fallback_chain(prog, sc, opt, depth + 1) + fallback_chain(prog, sc, other, depth + 1)
    if n[0] == "call":
        nm = short_callee(n[1])
        if nm in ("unwrap_or", "or", "unwrap_or_default") and ("Option" in n[1] or "Result" in n[1]):
            rest = fallback_chain(prog, sc, n[2][1], depth + 1) if len(n[2]) > 1 else ["Default"]
            return fallback_chain(prog, sc, n[2][0], depth + 1) + rest
        if nm in ("or_else", "unwrap_or_else") and len(n[2]) == 2:
            cl = strip(n[2][1])
            cid = closure_id_of(cl)
            alt = ["<closure>"]
            if cid and cid in prog.fns:
                cfn = prog.fns[cid]
                csc = Scope(prog, cfn, closure_env(cl), None, sc)
                rns = returned_nodes(cfn.body)
                if len(rns) == 1:
                    alt = fallback_chain(prog, csc, csc._rw(rns[0][1]), depth + 1)
            return fallback_chain(prog, sc, n[2][0], depth + 1) + alt
        if nm == "map" and "Option" in n[1] and len(n[2]) == 2:
            f = strip(n[2][1])
            fi = fn_item_of(f)
            inner = origin_desc(strip(n[2][0]))
            if fi:
                return ["%s(%s)" % (short_callee(fi), _short(inner))]
            cid = closure_id_of(f)
            if cid and cid in prog.fns:
                cfn = prog.fns[cid]
                from .exprs import mkproj
                csc = Scope(prog, cfn, closure_env(f), mkproj(strip(n[2][0]), ("@Some", ".0")), sc)
                rns = returned_nodes(cfn.body)
                if len(rns) == 1:
                    return ["map:" + origin_desc(strip(csc._rw(rns[0][1])))]
            return ["map(%s)" % inner]
        if nm in ("and_then",) and len(n[2]) == 2:
            cl = strip(n[2][1])
            cid = closure_id_of(cl)
            if cid and cid in prog.fns:
                cfn = prog.fns[cid]
                from .exprs import mkproj
                csc = Scope(prog, cfn, closure_env(cl), mkproj(strip(n[2][0]), ("@Some", ".0")), sc)
                rns = returned_nodes(cfn.body)
                if len(rns) == 1:
                    return ["and_then:" + origin_desc(strip(csc._rw(rns[0][1])))]
        if nm not in VOCAB:
            from . import cfgq
            inl = cfgq.inline_helper(prog, n)
            if inl is not None:
                return fallback_chain(prog, sc, inl, depth + 1)
    return [_short(origin_desc(n))]


def updates(root):
    """every write to a named place (field of a local, or a named local) in a function and its closures:
    [dict(dest, op, term, scope, bb, line)] ; op is '+=' when the right-hand side is dest + term, '/=' for dest / term, else '='"""
    out = []
    for sc in root.all_scopes():
        body = sc.body
        for b, i, s in body.statements():
            if s["s"] != "assign":
                continue
            p = s["p"]
            if isinstance(p, int):
                if p not in body.names:
                    continue
                dest_node = ("var", p, body.names[p])
                dest = body.names[p]
            else:
                dest_node = strip(sc.place(p))
                dest = leaf_name(dest_node)
                if dest is None or dest.startswith("_"):
                    continue
            rhs = strip(sc.rvalue(s["rv"]))
            if rhs[0] == "proj" and rhs[2] == (".0",) and strip(rhs[1])[0] == "bin" and "WithOverflow" in strip(rhs[1])[1]:
                inner = strip(rhs[1])
                rhs = ("bin", inner[1].replace("WithOverflow", ""), inner[2], inner[3])
            op = "="
            term = rhs
            if rhs[0] == "bin" and rhs[1] in ("Add", "Div", "Sub", "Mul"):
                a, bnode = strip(rhs[2]), strip(rhs[3])
                if leaf_name(a) == dest:
                    op = {"Add": "+=", "Div": "/=", "Sub": "-=", "Mul": "*="}[rhs[1]]
                    term = bnode
                elif leaf_name(bnode) == dest and rhs[1] in ("Add", "Mul"):
                    op = {"Add": "+=", "Mul": "*="}[rhs[1]]
                    term = a
            out.append({"dest": dest, "op": op, "term": term, "scope": sc, "bb": b, "line": s.get("ln")})
        for b, t in body.calls():
            if isinstance(t["dest"], int) and t["dest"] in body.names:
                out.append({"dest": body.names[t["dest"]], "op": "=", "term": strip(sc._rw(sc.eb.call_node(t, b))), "scope": sc, "bb": b, "line": t.get("ln")})
    return out
