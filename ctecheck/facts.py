"""Fact extraction orchestration and loading.

Facts are produced by the rustc_private driver in /verif/driver, run as
RUSTC_WORKSPACE_WRAPPER under `cargo +nightly check` on the *current working tree* of the
repository.  A fact set is cached per tree hash so that the twenty check commands share one
extraction per tree state; every command still analyses exactly the tree it is run on.
"""
import fcntl
import glob
import hashlib
import json
import os
import pickle
import shutil
import subprocess
import sys
import time

VERIF = os.path.dirname(os.path.dirname(os.path.abspath(__file__)))
REPO = os.environ.get("CTE_REPO", "/repo")
CACHE = os.environ.get("CTE_CACHE", os.path.join(VERIF, ".cache"))
DRIVER_DIR = os.path.join(VERIF, "driver")
DRIVER_BIN = os.path.join(DRIVER_DIR, "target", "release", "cte-facts")
MEMBERS = ["bemodel", "climate", "hulc", "hulc2model", "hulc_tests", "convertdb"]
# (crate, kind) fact files that must exist after an extraction of the workspace
EXPECTED_TARGETS = [
    ("bemodel", "lib"), ("climate", "lib"), ("hulc", "lib"), ("hulc2model", "lib"),
    ("hulc2model", "bin"), ("thor", "bin"), ("convertdb", "lib"), ("convertdb", "bin"),
    ("metconvert", "bin"),
]


class AnalysisError(Exception):
    """The machinery cannot analyse the tree (exit 2) -- never a property violation."""


def _env():
    env = dict(os.environ)
    env["CARGO_NET_OFFLINE"] = "true"
    return env


def nightly_sysroot():
    return subprocess.check_output(["rustc", "+nightly", "--print", "sysroot"], text=True, env=_env()).strip()


def _driver_sources_mtime():
    m = 0
    for p in glob.glob(os.path.join(DRIVER_DIR, "src", "*.rs")) + [os.path.join(DRIVER_DIR, "Cargo.toml")]:
        m = max(m, os.path.getmtime(p))
    return m


def ensure_driver(verbose=False):
    if os.path.exists(DRIVER_BIN) and os.path.getmtime(DRIVER_BIN) >= _driver_sources_mtime():
        return DRIVER_BIN
    os.makedirs(CACHE, exist_ok=True)
    with open(os.path.join(CACHE, "driver.lock"), "w") as lk:
        fcntl.flock(lk, fcntl.LOCK_EX)
        if os.path.exists(DRIVER_BIN) and os.path.getmtime(DRIVER_BIN) >= _driver_sources_mtime():
            return DRIVER_BIN
        r = subprocess.run(["cargo", "+nightly", "build", "--release", "--offline"], cwd=DRIVER_DIR,
                           env=_env(), capture_output=True, text=True)
        if r.returncode != 0 or not os.path.exists(DRIVER_BIN):
            raise AnalysisError("driver build failed:\n" + r.stderr[-3000:])
        os.utime(DRIVER_BIN, None)
    return DRIVER_BIN


def driver_hash():
    h = hashlib.sha256()
    for p in sorted(glob.glob(os.path.join(DRIVER_DIR, "src", "*.rs"))):
        h.update(open(p, "rb").read())
    return h.hexdigest()[:12]


def list_tree_files(repo):
    try:
        out = subprocess.check_output(["git", "-C", repo, "ls-files", "-co", "--exclude-standard", "-z"],
                                      stderr=subprocess.DEVNULL)
        files = [f for f in out.decode("utf-8", "replace").split("\0") if f]
        # the shipped model files are .gitignore'd by pattern but tracked; untracked siblings too
        extra = glob.glob(os.path.join(repo, "bemodel", "tests", "data", "*.json"))
        files = sorted(set(files) | {os.path.relpath(e, repo) for e in extra})
        if files:
            return files
    except Exception:
        pass
    files = []
    for root, dirs, fs in os.walk(repo):
        dirs[:] = [d for d in dirs if d not in (".git", "target")]
        for f in fs:
            files.append(os.path.relpath(os.path.join(root, f), repo))
    return sorted(files)


def tree_hash(repo=None):
    repo = repo or REPO
    h = hashlib.sha256()
    for f in list_tree_files(repo):
        p = os.path.join(repo, f)
        if not os.path.isfile(p):
            continue
        h.update(f.encode() + b"\0")
        with open(p, "rb") as fh:
            h.update(hashlib.sha256(fh.read()).digest())
    return h.hexdigest()[:16]


def _run_extraction(src_dir, out_dir, target_dir, member_names, all_targets=False, workspace=True):
    drv = ensure_driver()
    fp = os.path.join(target_dir, "debug", ".fingerprint")
    if os.path.isdir(fp):
        for d in os.listdir(fp):
            if any(d.startswith(m + "-") for m in member_names):
                shutil.rmtree(os.path.join(fp, d), ignore_errors=True)
    env = _env()
    sysroot = nightly_sysroot()
    env["LD_LIBRARY_PATH"] = os.path.join(sysroot, "lib") + ":" + env.get("LD_LIBRARY_PATH", "")
    env["RUSTFLAGS"] = "-Zmir-opt-level=0 -Awarnings"
    env["RUSTC_WORKSPACE_WRAPPER"] = drv
    env["CTE_FACTS_DIR"] = out_dir
    env["CARGO_TARGET_DIR"] = target_dir
    env.pop("RUSTC_WRAPPER", None)
    cmd = ["cargo", "+nightly", "check", "--offline"]
    if workspace:
        cmd.append("--workspace")
    if all_targets:
        cmd.append("--all-targets")
    r = subprocess.run(cmd, cwd=src_dir, env=env, capture_output=True, text=True)
    if r.returncode != 0:
        raise AnalysisError("extraction failed (the tree does not compile under cargo check?):\n" + r.stderr[-4000:])


def ensure_facts(repo=None, all_targets=False, verbose=False):
    """Returns the directory holding the fact files for the current tree of `repo`."""
    repo = repo or REPO
    os.makedirs(os.path.join(CACHE, "facts"), exist_ok=True)
    th = tree_hash(repo)
    key = "%s-%s%s" % (th, driver_hash(), "-all" if all_targets else "")
    out = os.path.join(CACHE, "facts", key)
    marker = os.path.join(out, "COMPLETE")
    if os.path.exists(marker):
        try:
            os.utime(out, None)
        except OSError:
            pass
        return out, th
    tdir = os.path.join(CACHE, "target")
    if os.path.realpath(repo) != "/repo":
        tdir = os.environ.get("CTE_TARGET_DIR") or os.path.join(CACHE, "target-scratch")
    # one extraction at a time per cargo target directory and per tree (scratch copies with their own target directory run in parallel)
    with open(os.path.join(CACHE, "extract-%s.lock" % hashlib.sha256(tdir.encode()).hexdigest()[:12]), "w") as lk:
        fcntl.flock(lk, fcntl.LOCK_EX)
        if os.path.exists(marker):
            return out, th
        tmp = out + ".tmp%d" % os.getpid()
        shutil.rmtree(tmp, ignore_errors=True)
        os.makedirs(tmp)
        t0 = time.time()
        _run_extraction(repo, tmp, tdir, MEMBERS, all_targets=all_targets)
        have = set()
        for f in os.listdir(tmp):
            if f.endswith(".json"):
                parts = f[:-5].rsplit("-", 2)
                have.add((parts[0], parts[1]))
        missing = [t for t in EXPECTED_TARGETS if t not in have]
        if missing:
            raise AnalysisError("no fact file for targets %s (found %s)" % (missing, sorted(have)))
        # tree must not have changed under us
        if tree_hash(repo) != th:
            raise AnalysisError("working tree changed during extraction")
        with open(os.path.join(tmp, "META.json"), "w") as fh:
            json.dump({"tree_hash": th, "repo": repo, "extract_s": round(time.time() - t0, 2),
                       "all_targets": all_targets, "targets": sorted("%s:%s" % t for t in have)}, fh)
        if os.path.exists(marker):
            shutil.rmtree(tmp, ignore_errors=True)      # another process (other target directory) finished the same tree first
            return out, th
        shutil.rmtree(out, ignore_errors=True)
        os.rename(tmp, out)
        open(marker, "w").write("ok")
        _gc_cache(keep=out)
    return out, th


def _gc_cache(keep, max_sets=40, min_age_s=3600):
    """drop old fact sets of scratch trees: only sets that nobody touched for an hour, oldest first, beyond max_sets"""
    base = os.path.join(CACHE, "facts")
    now = time.time()
    sets = [os.path.join(base, d) for d in os.listdir(base) if os.path.isdir(os.path.join(base, d))]
    sets = [s for s in sets if s != keep and ".tmp" not in os.path.basename(s) and "fixture" not in os.path.basename(s)]
    sets.sort(key=os.path.getmtime)
    while len(sets) > max_sets:
        s0 = sets.pop(0)
        try:
            if now - os.path.getmtime(s0) < min_age_s:
                break
        except OSError:
            continue
        shutil.rmtree(s0, ignore_errors=True)


def ensure_fixture_facts():
    """Facts of the positive-control fixture crate (same driver, same rules)."""
    fx = os.path.join(VERIF, "fixtures", "poscontrol")
    h = hashlib.sha256()
    for root, dirs, fs in os.walk(fx):
        dirs[:] = [d for d in dirs if d != "target"]
        for f in sorted(fs):
            h.update(f.encode())
            h.update(open(os.path.join(root, f), "rb").read())
    key = "fixture-%s-%s" % (h.hexdigest()[:12], driver_hash())
    out = os.path.join(CACHE, "facts", key)
    marker = os.path.join(out, "COMPLETE")
    if os.path.exists(marker):
        return out
    os.makedirs(os.path.join(CACHE, "facts"), exist_ok=True)
    with open(os.path.join(CACHE, "extract.lock"), "w") as lk:
        fcntl.flock(lk, fcntl.LOCK_EX)
        if os.path.exists(marker):
            return out
        tmp = out + ".tmp"
        shutil.rmtree(tmp, ignore_errors=True)
        os.makedirs(tmp)
        _run_extraction(fx, tmp, os.path.join(CACHE, "target-fixture"), ["poscontrol"], workspace=False)
        if not any(f.endswith(".json") for f in os.listdir(tmp)):
            raise AnalysisError("fixture extraction produced no facts")
        shutil.rmtree(out, ignore_errors=True)
        os.rename(tmp, out)
        open(marker, "w").write("ok")
    return out


def load_raw(facts_dir):
    """Load all fact files of a directory (pickle cache next to them)."""
    pk = os.path.join(facts_dir, "all.pickle")
    if os.path.exists(pk):
        try:
            with open(pk, "rb") as fh:
                return pickle.load(fh)
        except Exception:
            pass
    data = []
    for f in sorted(os.listdir(facts_dir)):
        if f.endswith(".json") and f != "META.json":
            with open(os.path.join(facts_dir, f)) as fh:
                d = json.load(fh)
            d["_file"] = f
            parts = f[:-5].rsplit("-", 2)
            d["_kind"] = parts[1]
            data.append(d)
    try:
        tmp = pk + ".%d" % os.getpid()
        with open(tmp, "wb") as fh:
            pickle.dump(data, fh, protocol=pickle.HIGHEST_PROTOCOL)
        os.rename(tmp, pk)
    except Exception:
        pass
    return data
