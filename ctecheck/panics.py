"""A5: may-panic site inventory with guard-idiom recognition.

A site is a dict: kind, fn (Fn), scope-root display, bb, line, construct, origin (descriptor), key, guard (None | text)
"""
import re

from .cfgq import dominating_conditions, bool_taken, strip, Scope
from .exprs import ExprBuilder, leaf_name, short_callee, show, walk, origin_desc
from .mir import callee_name, callee_of, op_place, op_const, pl_local, pl_proj

PANIC_FNS = re.compile(r"core::panicking::|std::rt::begin_panic|std::rt::panic_fmt|core::panicking::panic|panic_display|"
                       r"unreachable_display|assert_failed|core::option::expect_failed|core::result::unwrap_failed|panic_explicit|panic_nounwind|std::process::abort")
UNWRAPS = {"unwrap", "expect", "unwrap_err", "expect_err"}
INDEX_FNS = {"index", "index_mut"}
PANICKY_STD = {"remove", "insert", "swap_remove", "split_at", "split_at_mut", "split_off", "drain", "windows", "chunks", "chunks_exact",
               "step_by", "clamp", "copy_from_slice", "clone_from_slice", "swap", "rotate_left", "rotate_right", "from_digit",
               "div_euclid", "rem_euclid", "with_capacity", "borrow_mut", "borrow", "first_chunk", "extend_from_within", "range",
               "rchunks", "chunk_by", "select_nth_unstable", "to_digit", "pow", "repeat", "abs_diff_never", "from_utf8_unchecked",
               "slice_unchecked", "nth_back_never", "last_chunk", "array_chunks"}
# std functions in PANICKY_STD that only panic for special receivers: refine by receiver type
REMOVE_SAFE_RECEIVERS = ("BTreeMap", "HashMap", "HashSet", "BTreeSet", "AttrMap")


def macro_kind(mb):
    for m in mb or []:
        mm = m.rstrip("!")
        if mm in ("panic", "unreachable", "todo", "unimplemented", "assert", "assert_eq", "assert_ne", "debug_assert",
                  "debug_assert_eq", "debug_assert_ne"):
            return mm + "!"
    return None


class Inventory:
    def __init__(self, prog, cg):
        self.prog = prog
        self.cg = cg
        self._scopes = {}

    def scope_for(self, fn):
        """Scope (with closure env rewriting) for fn, built from its typeck root"""
        root = self.prog.root_of(fn)
        if root.id not in self._scopes:
            d = {}
            try:
                for sc in Scope(self.prog, root).all_scopes():
                    d.setdefault(sc.fn.id, sc)
            except RecursionError:
                pass
            self._scopes[root.id] = d
        return self._scopes[root.id].get(fn.id) or Scope(self.prog, fn)

    def sites_of(self, fn):
        """all may-panic sites of one body"""
        body = fn.body
        out = []
        sc = None
        for b in range(body.n):
            if body.is_cleanup(b):
                continue
            t = body.blocks[b]["term"]
            k = t["t"]
            if k == "assert":
                kind = t["kind"]
                if kind == "Other":
                    continue
                sc = sc or self.scope_for(fn)
                ops = [sc.operand(o) for o in t["ops"]]
                if kind == "BoundsCheck":
                    # ops: len, index ; find the indexed place from the statement using it (descriptor from index)
                    desc = "idx=%s" % origin_desc(ops[1])
                    out.append(self.mk(fn, b, t, "index", "BoundsCheck", desc, ops))
                elif kind == "Overflow":
                    desc = "%s(%s,%s)" % (t["detail"], origin_desc(ops[0]), origin_desc(ops[1]))
                    out.append(self.mk(fn, b, t, "overflow", "Overflow" + t["detail"], desc, ops))
                elif kind in ("DivisionByZero", "RemainderByZero"):
                    # the assert's operand is the dividend; the divisor is the operand compared with 0 in the condition
                    div = None
                    cp = op_place(t["cond"])
                    if cp is not None and isinstance(cp, int):
                        d = body.single_def(cp)
                        if d and d[0] == "st" and d[3]["rv"]["r"] == "bin" and d[3]["rv"]["op"] == "Eq":
                            div = sc.operand(d[3]["rv"]["a"])
                    if div is None:
                        div = ("unk", "divisor")
                    desc = "divisor=%s" % origin_desc(div)
                    out.append(self.mk(fn, b, t, "divzero", kind, desc, [div] + ops))
                elif kind == "OverflowNeg":
                    out.append(self.mk(fn, b, t, "overflow", "OverflowNeg", origin_desc(ops[0]), ops))
            elif k == "call":
                c = callee_of(t)
                if not c:
                    continue
                nm = c.get("rfn") or c["fn"]
                s = short_callee(nm)
                mb = t.get("mb") or []
                if PANIC_FNS.search(nm) or PANIC_FNS.search(c["fn"]):
                    mk = macro_kind(mb) or "panic"
                    sc = sc or self.scope_for(fn)
                    conds = self.cond_desc(sc, b)
                    out.append(self.mk(fn, b, t, "explicit", mk, conds, []))
                elif s in UNWRAPS and ("option::Option" in nm or "result::Result" in nm):
                    sc = sc or self.scope_for(fn)
                    arg = sc.operand(t["args"][0])
                    out.append(self.mk(fn, b, t, "unwrap", s, origin_desc(arg), [arg]))
                elif s in INDEX_FNS and ("ops::Index" in nm or "ops::index::Index" in nm or "SliceIndex" in nm or "Index" in (c.get("trait") or "")):
                    sc = sc or self.scope_for(fn)
                    args = [sc.operand(a) for a in t["args"]]
                    desc = "%s[%s]" % (origin_desc(args[0]), origin_desc(args[1]) if len(args) > 1 else "?")
                    out.append(self.mk(fn, b, t, "index", "Index::" + s, desc, args, extra=nm))
                elif s in PANICKY_STD and c.get("krate") in ("core", "alloc", "std") and not c.get("rid", "").startswith(tuple(self.prog.workspace_crates)):
                    sc = sc or self.scope_for(fn)
                    args = [sc.operand(a) for a in t["args"]]
                    if s in ("remove", "insert") and any(r in nm for r in REMOVE_SAFE_RECEIVERS):
                        continue
                    if s in ("borrow", "borrow_mut") and "RefCell" not in nm:
                        continue
                    if s in ("range", "repeat", "swap") and not ("slice" in nm or "Vec" in nm or "str" in nm):
                        continue
                    if s == "pow" and "f32" in nm or s == "pow" and "f64" in nm:
                        continue
                    if s == "clamp" and ("f32" in nm or "f64" in nm):
                        # panics if min > max or NaN bounds: constants are checked
                        if all(strip(a)[0] == "k" for a in args[1:3]):
                            try:
                                if float(strip(args[1])[1]) <= float(strip(args[2])[1]):
                                    continue
                            except ValueError:
                                pass
                    if s == "with_capacity":
                        continue   # capacity overflow aborts only for absurd sizes; sizes from arithmetic are Overflow sites
                    desc = "%s(%s)" % (s, ",".join(origin_desc(a) for a in args[:3]))
                    out.append(self.mk(fn, b, t, "stdpanic", s, desc, args, extra=nm))
        return out

    def cond_desc(self, sc, b):
        cs = []
        for (_, d, n, tk) in sc.conditions(b):
            cs.append("%s=%s" % (origin_desc(n), tk))
        return ";".join(cs[-2:])

    def mk(self, fn, b, t, kind, construct, desc, ops, extra=None):
        return {"kind": kind, "fn": fn, "bb": b, "line": t.get("ln"), "construct": construct, "origin": desc, "ops": ops,
                "term": t, "extra": extra, "guard": None}

    # ------------------------------------------------------------------ guards
    def classify(self, site):
        """sets site['guard'] to a text if a guard idiom applies"""
        fn = site["fn"]
        body = fn.body
        sc = self.scope_for(fn)
        b = site["bb"]
        kind = site["kind"]
        conds = sc.conditions(b)
        cdescs = [(strip(n), tk) for (_, d, n, tk) in conds]
        if kind == "unwrap":
            arg = strip(site["ops"][0])
            aname = origin_desc(arg)
            # Mutex::lock().unwrap(): panics only after another panic while locked (A6)
            if arg[0] == "call" and short_callee(arg[1]) in ("lock", "try_lock", "read", "write") and ("Mutex" in arg[1] or "RwLock" in arg[1]):
                return self.g(site, "exempt: lock().unwrap() fails only after a panic inside another region (C14-D3 covers that)")
            # x.is_some()/is_ok() on the same place on a dominating edge
            for (n, tk) in cdescs:
                if n[0] == "call" and short_callee(n[1]) in ("is_some", "is_ok", "is_none", "is_err") and n[2]:
                    same = origin_desc(strip(n[2][0])) == aname
                    want = short_callee(n[1]) in ("is_some", "is_ok")
                    if same and bool_taken(tk) is want:
                        return self.g(site, "guarded by %s() on the same value" % short_callee(n[1]))
            # first()/last()/pop()/iter().next() under a dominating length / is_empty test of the same collection
            if arg[0] == "call" and short_callee(arg[1]) in ("first", "last", "pop", "first_mut", "last_mut", "next", "max_by", "min_by", "iter_max"):
                coll = origin_desc(strip(arg[2][0])) if arg[2] else None
                if self.len_guard(cdescs, coll, 1):
                    return self.g(site, "guarded by a dominating length/emptiness test of %s" % coll)
                why = self.param_len_guard(fn, arg[2][0], 1) if arg[2] else None
                if why:
                    return self.g(site, "%s is a parameter: %s" % (coll, why))
            # get(i).unwrap() with i < len guard
            # parse of a literal / known-good constant
            if arg[0] == "call" and short_callee(arg[1]) in ("parse_str", "parse", "from_str") and arg[2] and strip(arg[2][0])[0] == "s":
                return self.g(site, "parse of a string literal")
            # literal Some(..)/Ok(..)
            if arg[0] == "agg" and (arg[1].endswith("::Some") or arg[1].endswith("::Ok")):
                return self.g(site, "unwrap of a literal Some/Ok")
            return None
        if kind == "index":
            t = site["term"]
            if site["construct"] == "BoundsCheck":
                ln_, idx = strip(site["ops"][0]), strip(site["ops"][1])
                # array of constant length with constant index
                if ln_[0] == "k" and idx[0] == "k":
                    if int(idx[1]) < int(ln_[1]):
                        return self.g(site, "constant index %s into an array of length %s" % (idx[1], ln_[1]))
                coll = None
                if ln_[0] == "call" and short_callee(ln_[1]) in ("len",):
                    coll = origin_desc(strip(ln_[2][0]))
                elif ln_[0] in ("un",) and ln_[1] == "PtrMetadata":
                    coll = origin_desc(strip(ln_[2]))
                if idx[0] == "k" and coll is not None and self.len_guard(cdescs, coll, int(idx[1]) + 1):
                    return self.g(site, "constant index %s under a dominating length test of %s" % (idx[1], coll))
                if idx[0] in ("arg", "var", "upvar") and coll is not None:
                    vals = self.const_values(sc, fn, idx, 0)
                    if vals and min(vals) >= 0 and self.len_guard(cdescs, coll, max(vals) + 1):
                        return self.g(site, "index takes the constant values %s, under a dominating length test of %s" % (sorted(vals), coll))
                if self.index_in_range(sc, body, idx, coll, cdescs):
                    return self.g(site, "index ranges over 0..len / enumerate / modulo of the same collection")
                return None
            args = [strip(a) for a in site["ops"]]
            recv = origin_desc(args[0])
            if len(args) > 1:
                idx = args[1]
                # a coordinate of a fixed-size nalgebra point / vector (dimension in the type), selected by an index that only takes constant values below it
                dim = None
                tcall = site.get("term") or {}
                gtys = (callee_of(tcall) or {}).get("g") or []
                m_ = re.match(r"^nalgebra::(?:OPoint<[^,]+, nalgebra::Const<(\d+)>>|Matrix<[^,]+, nalgebra::Const<(\d+)>, nalgebra::Const<1>,)", gtys[0]) if gtys else None
                if m_:
                    dim = int(m_.group(1) or m_.group(2))
                if dim is not None:
                    vals = self.const_values(sc, fn, idx, 0)
                    if vals is not None and vals and all(0 <= v < dim for v in vals):
                        return self.g(site, "component %s of a %d-dimensional point/vector" % (sorted(vals), dim))
                # element 0 of what `str::split(..)` yields (collected as is, or through map): split always yields at least one item
                if idx[0] == "k" and idx[1] == "0":
                    from .cfgq import inline_all, iter_chain
                    try:
                        r_ = strip(inline_all(self.prog, args[0]))
                    except Exception:
                        r_ = args[0]
                    while r_[0] == "call" and short_callee(r_[1]) in ("deref", "as_slice", "as_ref", "borrow") and r_[2]:
                        r_ = strip(r_[2][0])
                    if r_[0] == "call" and short_callee(r_[1]) == "collect" and r_[2]:
                        x_ = strip(r_[2][0])
                        while x_[0] == "call" and short_callee(x_[1]) in ("map", "into_iter", "iter") and x_[2]:
                            x_ = strip(x_[2][0])
                        if x_[0] == "call" and short_callee(x_[1]) in ("split", "rsplit", "split_inclusive") and "str" in x_[1]:
                            return self.g(site, "first item of str::split(..), which always yields at least one item")
                if idx[0] == "k" and self.len_guard(cdescs, recv, int(idx[1]) + 1 if idx[1].isdigit() else 1):
                    return self.g(site, "constant index under a dominating length test of %s" % recv)
                if self.index_in_range(sc, body, idx, recv, cdescs):
                    return self.g(site, "index ranges over 0..len / enumerate / modulo of the same collection")
                # slicing s[lit.len()..] on the starts_with(lit) edge
                if idx[0] == "agg" and "RangeFrom" in idx[1]:
                    st = strip(idx[3][0])
                    for (n, tk) in cdescs:
                        if n[0] == "call" and short_callee(n[1]) in ("starts_with",) and bool_taken(tk) is True and origin_desc(strip(n[2][0])) == recv:
                            return self.g(site, "slice from a prefix length on the starts_with edge")
                    if st[0] == "k" and st[1] == "0":
                        return self.g(site, "slice from 0")
                    if st[0] == "k" and st[1].isdigit() and self.len_guard(cdescs, recv, int(st[1])):
                        return self.g(site, "slice from %s under a dominating length/emptiness test of %s" % (st[1], recv))
                if idx[0] == "agg" and "RangeFull" in idx[1]:
                    return self.g(site, "full range")
            return None
        if kind == "overflow":
            op = site["construct"]
            a, bnode = (strip(site["ops"][0]), strip(site["ops"][1])) if len(site["ops"]) > 1 else (strip(site["ops"][0]), None)
            tyl = self.int_ty(body, site)
            # usize counters / index arithmetic by small constants cannot overflow before memory is exhausted
            if op in ("OverflowAdd", "OverflowMul") and tyl in ("usize", "u64", "i64", "isize", "u128", "i128"):
                if op == "OverflowAdd":
                    return self.g(site, "exempt: %s addition (cannot overflow before memory is exhausted)" % tyl)
                if bnode is not None and (bnode[0] == "k" or a[0] == "k"):
                    return self.g(site, "exempt: %s multiplication by a constant of a length/counter" % tyl)
            if op == "OverflowAdd" and bnode is not None and (a[0] == "k" or bnode[0] == "k") and not self.from_input(a if bnode[0] == "k" else bnode):
                return self.g(site, "exempt: counter increment by a constant")
            if op == "OverflowSub" and bnode is not None:
                # a - b under a dominating a >= b / a > b test, or len() - k under a length guard
                an, bn = origin_desc(a), origin_desc(bnode)
                for (n, tk) in cdescs:
                    if n[0] == "bin" and n[1] in ("Ge", "Gt", "Le", "Lt", "Eq", "Ne"):
                        l, r = origin_desc(strip(n[2])), origin_desc(strip(n[3]))
                        v = bool_taken(tk)
                        if v is None:
                            continue
                        if (l, r) == (an, bn) and ((n[1] in ("Ge", "Gt") and v) or (n[1] in ("Lt",) and not v) or (n[1] == "Le" and not v)):
                            return self.g(site, "guarded by a dominating %s %s %s test" % (an, n[1], bn))
                        if (l, r) == (bn, an) and ((n[1] in ("Le", "Lt") and v) or (n[1] in ("Gt",) and not v) or (n[1] == "Ge" and not v)):
                            return self.g(site, "guarded by a dominating comparison of the operands")
                if bnode[0] == "k" and a[0] == "call" and short_callee(a[1]) == "len":
                    coll = origin_desc(strip(a[2][0]))
                    if self.len_guard(cdescs, coll, int(bnode[1])):
                        return self.g(site, "len() - %s under a dominating length test of %s" % (bnode[1], coll))
            return None
        if kind == "divzero":
            d = strip(site["ops"][0])
            fn = site["fn"]
            if d[0] == "k" and d[1] not in ("0",):
                return self.g(site, "constant non-zero divisor")
            dn = origin_desc(d)
            if d[0] == "call" and short_callee(d[1]) == "len":
                coll = origin_desc(strip(d[2][0]))
                if self.len_guard(cdescs, coll, 1):
                    return self.g(site, "divisor len() under a non-emptiness test")
                # `opt.filter(|v| !v.is_empty())` then Some(v): the collection is non-empty by construction
                x = strip(d[2][0])
                if x[0] == "proj" and x[2][:2] == ("@Some", ".0") and strip(x[1])[0] == "call" and short_callee(strip(x[1])[1]) == "filter" and "Option" in strip(x[1])[1]:
                    from .cfgq import closure_id_of, returned_nodes as _rn
                    cl = strip(x[1])[2][1] if len(strip(x[1])[2]) == 2 else None
                    cid = closure_id_of(cl) if cl is not None else None
                    if cid in self.prog.fns:
                        cb = self.prog.fns[cid].body
                        rns = _rn(cb)
                        if len(rns) == 1:
                            r = strip(rns[0][1])
                            if r[0] == "un" and r[1] == "Not" and strip(r[2])[0] == "call" and short_callee(strip(r[2])[1]) == "is_empty":
                                return self.g(site, "divisor len() of a collection kept only when non-empty (Option::filter(|v| !v.is_empty()))")
            for (n, tk) in cdescs:
                if n[0] == "bin" and n[1] in ("Eq", "Ne", "Gt", "Lt"):
                    l, r = strip(n[2]), strip(n[3])
                    if origin_desc(l) == dn and r[0] == "k" and r[1] == "0":
                        v = bool_taken(tk)
                        if (n[1] == "Eq" and v is False) or (n[1] in ("Ne", "Gt") and v is True):
                            return self.g(site, "guarded by a dominating non-zero test of the divisor")
                # x < D (unsigned) on a dominating edge implies D >= 1
                if n[0] == "bin" and n[1] in ("Lt", "Ge", "Gt", "Le"):
                    l, r = origin_desc(strip(n[2])), origin_desc(strip(n[3]))
                    v = bool_taken(tk)
                    if (n[1] == "Lt" and v is True and r == dn) or (n[1] == "Ge" and v is False and r == dn) or \
                       (n[1] == "Gt" and v is True and l == dn) or (n[1] == "Le" and v is False and l == dn):
                        return self.g(site, "guarded: a dominating unsigned comparison x < divisor implies divisor >= 1")
            # x % len(C) evaluated for an x that is an index drawn from C itself (enumerate / 0..len(C)): C is non-empty
            if d[0] == "call" and short_callee(d[1]) == "len" and d[2] and len(site["ops"]) > 1:
                coll = origin_desc(strip(d[2][0]))
                for x in walk(site["ops"][1]):
                    if x[0] == "elem" and (x[1] == coll or ("len(%s)" % coll) in x[1]):
                        return self.g(site, "divisor len(%s) while visiting an element/index of %s (non-empty)" % (coll, coll))
            # divisor is a parameter that is a non-zero constant at every call site
            if d[0] == "arg":
                okc = self.param_const_nonzero(fn, d[1], 0)
                if okc:
                    return self.g(site, "divisor parameter `%s` is a non-zero constant at every call site (%s)" % (d[2], okc))
            return None
        if kind == "explicit":
            return None
        if kind == "stdpanic":
            s = site["construct"]
            args = [strip(a) for a in site["ops"]]
            if s in ("windows", "chunks", "chunks_exact", "step_by", "rchunks") and len(args) > 1 and args[1][0] == "k" and args[1][1] != "0":
                return self.g(site, "constant non-zero size argument")
            if s in ("remove", "swap_remove", "insert") and len(args) > 1:
                recv = origin_desc(args[0])
                if args[1][0] == "k" and self.len_guard(cdescs, recv, int(args[1][1]) + (0 if s == "insert" else 1)):
                    return self.g(site, "constant position under a dominating length test")
                if s == "insert" and args[1][0] == "k" and args[1][1] == "0":
                    return self.g(site, "insert at position 0")
                if self.index_in_range(sc, body, args[1], recv, cdescs):
                    return self.g(site, "position from position()/0..len of the same collection")
            return None
        return None

    def g(self, site, text):
        site["guard"] = text
        return text

    def from_input(self, n):
        return False

    def int_ty(self, body, site):
        t = site["term"]
        cp = op_place(t["cond"])
        if cp is not None:
            m = re.match(r"^\((\w+), bool\)$", body.local_ty(pl_local(cp)))
            if m:
                return m.group(1)
        # type of the checked arithmetic result: operands of the assert's originating statement
        for o in t["ops"]:
            p = op_place(o)
            if p is not None:
                return body.local_ty(pl_local(p)) if isinstance(p, int) else None
            k = op_const(o)
            if k:
                return k.get("ty")
        return None

    def len_guard(self, cdescs, coll, need):
        """a dominating condition implies len(coll) >= need"""
        if coll is None:
            return False
        for (n, tk) in cdescs:
            v = bool_taken(tk)
            if n[0] == "call" and short_callee(n[1]) == "is_empty" and n[2] and origin_desc(strip(n[2][0])) == coll:
                if v is False and need <= 1:
                    return True
            if n[0] == "un" and n[1] == "Not" and strip(n[2])[0] == "call" and short_callee(strip(n[2])[1]) == "is_empty":
                m = strip(n[2])
                if m[2] and origin_desc(strip(m[2][0])) == coll and v is True and need <= 1:
                    return True
            if n[0] == "bin" and n[1] in ("Lt", "Le", "Gt", "Ge", "Eq", "Ne"):
                l, r = strip(n[2]), strip(n[3])
                for (x, y, flip) in ((l, r, False), (r, l, True)):
                    islen = (x[0] == "call" and short_callee(x[1]) == "len" and x[2] and origin_desc(strip(x[2][0])) == coll) or \
                            (x[0] == "un" and x[1] == "PtrMetadata" and origin_desc(strip(x[2])) == coll)
                    if islen and y[0] == "k" and y[1].isdigit():
                        c = int(y[1])
                        op = n[1]
                        if flip:
                            op = {"Lt": "Gt", "Le": "Ge", "Gt": "Lt", "Ge": "Le", "Eq": "Eq", "Ne": "Ne"}[op]
                        if v is None:
                            continue
                        # len op c is v
                        if op == "Lt" and v is False and c >= need:
                            return True
                        if op == "Le" and v is False and c + 1 >= need:
                            return True
                        if op == "Gt" and v is True and c + 1 >= need:
                            return True
                        if op == "Ge" and v is True and c >= need:
                            return True
                        if op == "Eq" and v is True and c >= need:
                            return True
                        if op == "Ne" and v is False and c >= need:
                            return True
            # switch on len() value (match v.len() { 1 => .. })
            if n[0] == "call" and short_callee(n[1]) == "len" and n[2] and origin_desc(strip(n[2][0])) == coll:
                if tk.isdigit() and int(tk) >= need:
                    return True
        return False

    def const_values(self, sc, fn, node, depth):
        """the set of integer constants the node can take: a literal; a local all of whose definitions are such; a parameter of a private function for which
        every call site passes such a value; a captured variable of the enclosing function.  None when not all values are constants"""
        n = strip(node)
        if depth > 4:
            return None
        if n[0] == "k":
            return {int(n[1])} if re.match(r"^-?\d+$", n[1]) else None
        if n[0] == "cast":
            return self.const_values(sc, fn, n[1], depth + 1)
        if n[0] == "var":
            owner = sc
            while owner is not None and not (isinstance(n[1], int) and n[1] < len(owner.body.locals) and owner.body.names.get(n[1]) == n[2]):
                owner = owner.parent
            if owner is None:
                return None
            out = set()
            defs = owner.body.defs().get(n[1], [])
            if not defs:
                return None
            for d in defs:
                if d[0] != "st":
                    return None
                v = self.const_values(owner, owner.fn, owner.rvalue(d[3]["rv"]), depth + 1)
                if v is None:
                    return None
                out |= v
            return out
        if n[0] == "arg" and self.prog.root_of(fn).id != fn.id:
            # a parameter of a closure that is called by name in its function (`let f = |idx| ..; f(5)`): the values passed at those calls
            target = None
            for f3 in [self.prog.root_of(fn)] + self.prog.closures_of(self.prog.root_of(fn)):
                names = f3.body.names
                if any(isinstance(i_, int) and i_ == n[1] and nm_ == n[2] for i_, nm_ in names.items()) and f3.id != self.prog.root_of(fn).id and 2 <= n[1] <= f3.body.argc:
                    target = f3
            if target is None:
                return None
            out = set()
            found = False
            for f2 in [self.prog.root_of(fn)] + self.prog.closures_of(self.prog.root_of(fn)):
                sc2 = None
                for b, t in f2.body.calls():
                    c = callee_of(t)
                    if c and (c.get("rid") or c["id"]) == target.id and len(t["args"]) == 2:
                        sc2 = sc2 or self.scope_for(f2)
                        tup = strip(sc2.operand(t["args"][1]))
                        if tup[0] != "agg" or n[1] - 2 >= len(tup[3]):
                            return None
                        v = self.const_values(sc2, f2, tup[3][n[1] - 2], depth + 1)
                        if v is None:
                            return None
                        out |= v
                        found = True
            return out if found else None
        if n[0] == "arg":
            root = self.prog.root_of(fn)
            if root.id != fn.id or root.raw.get("pub"):
                return None
            out = set()
            callers = []
            for f2 in self.prog.fns.values():
                for b, t in f2.body.calls():
                    c = callee_of(t)
                    if c and (c.get("rid") or c["id"]) == fn.id:
                        callers.append((f2, b, t))
            if not callers:
                return None
            for (f2, b, t) in callers:
                sc2 = self.scope_for(f2)
                v = self.const_values(sc2, f2, sc2.operand(t["args"][n[1] - 1]), depth + 1)
                if v is None:
                    return None
                out |= v
            return out
        return None

    def param_len_guard(self, fn, coll_node, need, depth=0):
        """the collection is a parameter of a private function and every call site passes a collection that is length-guarded there (>= need elements)"""
        if depth > 2 or fn.raw.get("pub"):
            return None
        n = strip(coll_node)
        while n[0] == "call" and short_callee(n[1]) in ("deref", "as_ref", "as_slice", "borrow", "iter", "as_deref", "clone") and n[2]:
            n = strip(n[2][0])
        if n[0] != "arg":
            return None
        root = self.prog.root_of(fn)
        if root.id != fn.id:
            return None
        callers = []
        for f2 in self.prog.fns.values():
            for b, t in f2.body.calls():
                c = callee_of(t)
                if c and (c.get("rid") or c["id"]) == fn.id:
                    callers.append((f2, b, t))
        if not callers:
            return None
        for (f2, b, t) in callers:
            sc2 = self.scope_for(f2)
            actual = strip(sc2.operand(t["args"][n[1] - 1]))
            while actual[0] == "call" and short_callee(actual[1]) in ("deref", "as_ref", "as_slice", "borrow", "as_deref") and actual[2]:
                actual = strip(actual[2][0])
            cd2 = [(strip(c_), tk) for (_, d, c_, tk) in sc2.conditions(b)]
            if self.len_guard(cd2, origin_desc(actual), need):
                continue
            if self.param_len_guard(f2, actual, need, depth + 1):
                continue
            return None
        return "every call site (%s) passes a collection under a dominating length test (>= %d)" % (", ".join(sorted({f2.path.split("::")[-1] for f2, _, _ in callers})), need)

    def param_const_nonzero(self, fn, argidx, depth):
        """all call sites of fn pass a non-zero integer constant (or their own such parameter) as argument argidx"""
        if depth > 3:
            return None
        prog = self.prog
        callers = []
        for f2 in prog.fns.values():
            for b, t in f2.body.calls():
                c = callee_of(t)
                if c and (c.get("rid") or c["id"]) == fn.id:
                    callers.append((f2, t))
        if not callers:
            return None
        vals = []
        for (f2, t) in callers:
            if f2.raw.get("impl_derived"):
                continue
            a = strip(self.scope_for(f2).operand(t["args"][argidx - 1]))
            if a[0] == "k" and a[1] not in ("0", "0.0"):
                vals.append(a[1])
            elif a[0] == "arg":
                sub = self.param_const_nonzero(f2, a[1], depth + 1)
                if not sub:
                    return None
                vals.append(sub)
            else:
                return None
        return ",".join(sorted(set(vals))) if vals else None

    def index_in_range(self, sc, body, idx, coll, cdescs):
        """index derives from 0..len(coll), enumerate() of coll, position() in coll, or x % len(coll)"""
        idx = strip(idx)
        if coll is None:
            return False
        idn = origin_desc(idx)
        for (n, tk) in cdescs:
            if n[0] == "bin" and n[1] in ("Lt", "Ge", "Gt", "Le"):
                l, r = strip(n[2]), strip(n[3])
                v = bool_taken(tk)
                for (x, y, op) in ((l, r, n[1]), (r, l, {"Lt": "Gt", "Ge": "Le", "Gt": "Lt", "Le": "Ge"}[n[1]])):
                    islen = (y[0] == "call" and short_callee(y[1]) == "len" and y[2] and origin_desc(strip(y[2][0])) == coll) or \
                            (y[0] == "un" and y[1] == "PtrMetadata" and origin_desc(strip(y[2])) == coll)
                    if islen and origin_desc(x) == idn and ((op == "Lt" and v is True) or (op == "Ge" and v is False)):
                        return True
        if idx[0] == "bin" and idx[1] == "Rem":
            d = strip(idx[3])
            if d[0] == "call" and short_callee(d[1]) == "len" and origin_desc(strip(d[2][0])) == coll:
                return True
            if d[0] == "un" and d[1] == "PtrMetadata" and origin_desc(strip(d[2])) == coll:
                return True
        # elem of an enumerate over the same collection: ("proj", ("elem", coll, (...,"enumerate")), (".0",))
        if idx[0] == "proj" and idx[1][0] == "elem" and "enumerate" in idx[1][2] and idx[2] and idx[2][0] == ".0":
            if idx[1][1] == coll:
                return True
        # element of a range 0..len(coll)
        for x in walk(idx):
            if x[0] == "elem":
                pass
        if idx[0] == "elem" or (idx[0] == "proj" and idx[1][0] == "elem"):
            e = idx if idx[0] == "elem" else idx[1]
            src = e[1]
            if "len(%s)" % coll in src.replace(" ", "") or src.endswith("len(%s)}" % coll):
                return True
            # the range the element comes from, when its descriptor abbreviates it (`Range{..}`): start 0 (or more), end = len(coll)
            from .cfgq import ELEM_SOURCES
            chains = ELEM_SOURCES.get((self.prog.root_of(sc.fn).id, e[1], e[2])) or []
            # every range of this function that goes by that name must end at len(coll) (the descriptor does not say which one the element is from)
            good = 0
            for ch in chains:
                rng = strip(ch.source)
                if not (rng[0] == "agg" and rng[1].split("::")[-1] == "Range" and all(a_ in ("iter", "into_iter", "map", "enumerate", "rev") for a_, _ in ch.steps if a_)):
                    good = -1
                    break
                fl = dict(zip(rng[2], rng[3]))
                end = strip(fl.get("end", ("?",)))
                if (end[0] == "call" and short_callee(end[1]) == "len" and end[2] and origin_desc(strip(end[2][0])) == coll) or \
                        (end[0] == "un" and end[1] == "PtrMetadata" and origin_desc(strip(end[2])) == coll):
                    good += 1
                else:
                    good = -1
                    break
            if chains and good == len(chains):
                return True
            ch = None
            rng = None
            if rng is not None and rng[0] == "agg" and rng[1].split("::")[-1] == "Range" and all(a_ in ("iter", "into_iter", "map", "enumerate", "rev") for a_, _ in ch.steps if a_):
                fl = dict(zip(rng[2], rng[3]))
                end = strip(fl.get("end", ("?",)))
                if (end[0] == "call" and short_callee(end[1]) == "len" and end[2] and origin_desc(strip(end[2][0])) == coll) or \
                        (end[0] == "un" and end[1] == "PtrMetadata" and origin_desc(strip(end[2])) == coll):
                    return True
        if idx[0] == "call" and short_callee(idx[1]) in ("unwrap", "expect") and idx[2]:
            inner = strip(idx[2][0])
            if inner[0] == "call" and short_callee(inner[1]) == "position":
                from .cfgq import iter_chain
                ch = iter_chain(inner[2][0])
                if ch.source_name() == coll:
                    return True
        return False


def reachable_sites(ctx, inv, roots, skip_fn=None):
    """(seen map, list of sites) over bodies reachable from roots (derived impls skipped)"""
    prog = ctx.prog
    seen = ctx.cg.reachable(roots)
    sites = []
    for fid in sorted(seen):
        fn = prog.fns[fid]
        if fn.raw.get("impl_derived") or prog.root_of(fn).raw.get("impl_derived"):
            continue
        if skip_fn and skip_fn(fn):
            continue
        if fn.kind in ("static", "const", "assocconst"):
            continue
        for s in inv.sites_of(fn):
            inv.classify(s)
            sites.append(s)
    return seen, sites


def assign_keys(prog, sites, rule):
    """stable keys: rule|outermost fn|construct|origin[|n]"""
    counts = {}
    for s in sorted(sites, key=lambda s: (prog.display(s["fn"]), s["line"] or 0, s["bb"])):
        base = "%s|%s|%s|%s" % (rule, prog.root_of(s["fn"]).path, s["construct"], s["origin"][:110])
        n = counts.get(base, 0)
        counts[base] = n + 1
        s["key"] = base if n == 0 else "%s|%d" % (base, n)
    return sites
