"""Float-division rule (C14-D4, C10-D4, C12-D2): every f32/f64 division's divisor must be provably non-zero by a local idiom."""
from .cfgq import bool_taken, Scope
from .exprs import ExprBuilder, short_callee, strip, origin_desc, walk
from .mir import op_place, op_const, pl_local


def float_divisions(inv, fn):
    """sites: dict(fn, bb, line, divisor node, desc, guard)"""
    body = fn.body
    out = []
    sc = None
    for b, i, s in body.statements():
        if s["s"] != "assign":
            continue
        rv = s["rv"]
        if rv["r"] != "bin" or rv["op"] != "Div":
            continue
        # type of the result
        dl = pl_local(s["p"])
        ty = body.local_ty(dl) if isinstance(s["p"], int) else None
        if ty is None:
            # field of a struct: use operand types
            pa = op_place(rv["a"])
            k = op_const(rv["a"])
            ty = (body.local_ty(pl_local(pa)) if pa is not None and isinstance(pa, int) else (k or {}).get("ty")) or "f32?"
            if pa is not None and not isinstance(pa, int):
                pb = op_place(rv["b"])
                kb = op_const(rv["b"])
                ty = (body.local_ty(pl_local(pb)) if pb is not None and isinstance(pb, int) else (kb or {}).get("ty")) or "f32?"
        if not ty.startswith("f"):
            continue
        sc = sc or inv.scope_for(fn)
        d = strip(sc.operand(rv["b"]))
        num = strip(sc.operand(rv["a"]))
        site = {"fn": fn, "bb": b, "line": s.get("ln"), "divisor": d, "num": num, "desc": origin_desc(d), "guard": None, "kind": "fdiv"}
        classify_div(inv, sc, site)
        out.append(site)
    return out


def positive(n, depth=0):
    """structurally positive: c>0, max(x,c>0), products/casts of positives, min of positives"""
    n = strip(n)
    if depth > 6:
        return False
    if n[0] == "k":
        try:
            return float(n[1]) > 0
        except ValueError:
            return False
    if n[0] == "cast":
        return positive(n[1], depth + 1)
    if n[0] == "bin" and n[1] == "Mul":
        return positive(n[2], depth + 1) and positive(n[3], depth + 1)
    if n[0] == "call" and short_callee(n[1]) == "max" and len(n[2]) == 2:
        return positive(n[2][0], depth + 1) or positive(n[2][1], depth + 1)
    if n[0] == "call" and short_callee(n[1]) == "min" and len(n[2]) == 2:
        return positive(n[2][0], depth + 1) and positive(n[2][1], depth + 1)
    if n[0] == "call" and short_callee(n[1]) == "clamp" and len(n[2]) == 3:
        return positive(n[2][1], depth + 1)
    return False


def classify_div(inv, sc, site):
    d = site["divisor"]
    body = site["fn"].body
    if d[0] != "k" and positive(d):
        site["guard"] = "divisor structurally positive (clamped from below by a positive constant)"
        return
    # the same through a small helper of the workspace (`sample_divisions(width)` = 10.min(..).max(5)): its returned expression in place of the call
    if any(x[0] == "call" for x in walk(d)):
        from .cfgq import inline_all
        try:
            d2 = strip(inline_all(inv.prog, d))
        except Exception:
            d2 = d
        if d2 != d and d2[0] != "k" and positive(d2):
            site["guard"] = "divisor structurally positive once its helper function is read (clamped from below by a positive constant)"
            return
    if d[0] == "k":
        try:
            if float(d[1]) != 0.0:
                site["guard"] = "constant non-zero divisor %s" % d[1]
                return
        except ValueError:
            pass
    if d[0] == "cast" and strip(d[1])[0] == "k" and strip(d[1])[1] not in ("0",):
        site["guard"] = "constant non-zero divisor"
        return
    # clamped: max(x, c) with c > 0 ; clamp(lo>0, hi)
    if d[0] == "call" and short_callee(d[1]) == "max" and len(d[2]) == 2:
        for a in d[2]:
            a = strip(a)
            if a[0] == "k":
                try:
                    if float(a[1]) > 0:
                        site["guard"] = "divisor clamped from below by %s" % a[1]
                        return
                except ValueError:
                    pass
    if d[0] == "cast":
        inner = strip(d[1])
        if inner[0] == "call" and short_callee(inner[1]) == "clamp" and len(inner[2]) == 3 and strip(inner[2][1])[0] == "k":
            try:
                if float(strip(inner[2][1])[1]) > 0:
                    site["guard"] = "divisor clamped to a positive range"
                    return
            except ValueError:
                pass
    # dominating comparison of the same place (or its abs) with a constant
    dn = origin_desc(d)
    conds = sc.conditions(site["bb"])
    for (_, dd, n, tk) in conds:
        n = strip(n)
        v = bool_taken(tk)
        if v is None or n[0] != "bin" or n[1] not in ("Gt", "Ge", "Lt", "Le", "Ne", "Eq"):
            continue
        l, r = strip(n[2]), strip(n[3])
        for (x, y, flip) in ((l, r, False), (r, l, True)):
            xd = origin_desc(x)
            if x[0] == "call" and short_callee(x[1]) == "abs" and x[2]:
                xd2 = origin_desc(strip(x[2][0]))
            else:
                xd2 = None
            if y[0] != "k":
                continue
            if xd != dn and xd2 != dn:
                continue
            try:
                c = float(y[1])
            except ValueError:
                continue
            op = n[1]
            if flip:
                op = {"Lt": "Gt", "Le": "Ge", "Gt": "Lt", "Ge": "Le", "Eq": "Eq", "Ne": "Ne"}[op]
            # x op c is v  =>  x != 0 ?
            nonzero = False
            if op == "Gt" and v and c >= 0:
                nonzero = True
            if op == "Ge" and v and c > 0:
                nonzero = True
            if op == "Lt" and not v and c > 0:
                nonzero = True      # !(x < c) => x >= c > 0
            if op == "Le" and not v and c >= 0:
                nonzero = True      # !(x <= c) => x > c >= 0
            if op == "Ne" and v and c == 0:
                nonzero = True
            if op == "Eq" and not v and c == 0:
                nonzero = True
            if nonzero:
                site["guard"] = "guarded by a dominating comparison of the divisor (%s %s %s is %s)" % (dn, n[1], y[1], v)
                return
    # an expression of the function's parameters that folds to a non-zero constant at every call site in the workspace
    g = params_fold_nonzero(inv.prog, site["fn"], d)
    if g:
        site["guard"] = g
        return
    # len() as f32 under a non-emptiness guard
    inner = strip(d[1]) if d[0] == "cast" else d
    if inner[0] == "call" and short_callee(inner[1]) == "len" and inner[2]:
        coll = origin_desc(strip(inner[2][0]))
        cdescs = [(strip(n), tk) for (_, dd, n, tk) in conds]
        if inv.len_guard(cdescs, coll, 1):
            site["guard"] = "divisor len() under a non-emptiness test"
            return


def params_fold_nonzero(prog, fn, d):
    """divisor = arithmetic over parameters of a plain function; every call of the function in the workspace passes constants for
    which it folds to a non-zero value"""
    from .exprs import walk
    from .mir import callee_of
    from .tables import const_eval
    if fn.kind not in ("fn", "assocfn") or fn.root != fn.id:
        return None
    leaves = [x for x in walk(d) if x[0] in ("arg", "var", "proj", "call", "upvar", "elem")]
    if not leaves or any(x[0] != "arg" for x in leaves):
        return None
    sites = []
    for f in prog.fns.values():
        for b, t in f.body.calls():
            c = callee_of(t)
            if c and (c.get("rid") or c["id"]) == fn.id:
                sites.append((f, t))
    if not sites:
        return None

    def subst(n, args):
        n = strip(n)
        if n[0] == "arg":
            return args.get(n[1])
        if n[0] == "bin":
            a, b = subst(n[2], args), subst(n[3], args)
            return None if a is None or b is None else ("bin", n[1], a, b)
        if n[0] == "un":
            a = subst(n[2], args)
            return None if a is None else ("un", n[1], a)
        if n[0] == "cast":
            a = subst(n[1], args)
            return None if a is None else ("cast", a, n[2])
        if n[0] == "k":
            return n
        return None
    vals = set()
    for f, t in sites:
        eb = ExprBuilder(f.body)
        args = {}
        for i, a in enumerate(t["args"], 1):
            an = strip(eb.operand(a))
            if an[0] == "un" and an[1] == "Neg" and strip(an[2])[0] == "k":
                an = ("k", "-" + strip(an[2])[1], None, None)
            if an[0] == "k":
                args[i] = an
        e = subst(d, args)
        v = const_eval(e) if e is not None else None
        if v is None or v == 0:
            return None
        vals.add(float(v))
    return "divisor is a function of the parameters only and is %s at all %d call sites in the workspace" % (sorted(vals), len(sites))


def assign_div_keys(prog, sites, rule):
    counts = {}
    for s in sorted(sites, key=lambda s: (prog.display(s["fn"]), s["line"] or 0, s["bb"])):
        base = "%s|%s|divisor=%s" % (rule, prog.root_of(s["fn"]).path, s["desc"][:100])
        n = counts.get(base, 0)
        counts[base] = n + 1
        s["key"] = (base if n == 0 else "%s|%d" % (base, n)).replace('"', "'")
    return sites
