"""Canonical local names: renaming a local variable or a parameter must not change any verdict.

The rules talk about the program in the vocabulary of today's source (`k.windows.a`, `win_u`, `props.walls[]`, `current_count`).  Those are
*local* names: a developer may rename them freely.  For every function of the workspace this module computes, for each named local, a
signature that does not mention any local name - its type, whether it is a parameter (and which), whether it is the returned value, and the
shapes of the values assigned to it with parameters written by position and other locals by type.  `bin/mkroles` records
{function -> {signature -> name}} for the reference tree in spec/roles.json; when a program is loaded, every local whose signature is in
the table gets the recorded name (in `Body.names`, which is what the expression builder, the leaf names and the instance keys read).

A local that was renamed keeps its role name; a local whose *definition* changed keeps its source name (so an edit that changes what is
computed is seen exactly as written); new locals are untouched.  Signatures shared by locals of different names in one body are ambiguous and
left alone."""
import json
import os
import re

from .exprs import ExprBuilder, short_callee, strip

TABLE = os.path.join(os.path.dirname(os.path.abspath(__file__)), "spec", "roles.json")
_table = None


def _canon(body, n, depth=0):
    n = strip(n)
    if depth > 10:
        return ".."
    k = n[0]
    if k == "arg":
        return "a%d" % n[1]
    if k == "var":
        return "v<%s>" % body.local_ty(n[1])[:40] if isinstance(n[1], int) and n[1] < len(body.locals) else "v"
    if k == "upvar":
        return "u%s" % n[1]
    if k == "k":
        return str(n[1])
    if k == "s":
        return '"%s"' % n[1][:20]
    if k == "kx":
        d = dict(n[1])
        return "K:%s" % (d.get("static") or d.get("def") or d.get("fn") or d.get("rfn") or "c").split("::")[-1]
    if k == "proj":
        return _canon(body, n[1], depth + 1) + "".join(p if not p.startswith("[_") else "[i]" for p in n[2])
    if k == "bin":
        return "%s(%s,%s)" % (n[1].replace("WithOverflow", ""), _canon(body, n[2], depth + 1), _canon(body, n[3], depth + 1))
    if k == "un":
        return "%s(%s)" % (n[1], _canon(body, n[2], depth + 1))
    if k == "cast":
        return _canon(body, n[1], depth + 1)
    if k == "discr":
        return "discr(%s)" % _canon(body, n[1], depth + 1)
    if k == "call":
        return "%s(%s)" % (short_callee(n[1]), ",".join(_canon(body, a, depth + 1) for a in n[2][:4]))
    if k == "agg":
        lab = n[1].split("::")[-1] if not n[1].startswith("closure:") else "closure"
        return "%s{%s}" % (lab, ",".join(_canon(body, a, depth + 1) for a in n[3][:6]))
    if k == "elem":
        return "elem"
    return k


def signatures(fn):
    """{local index -> signature string} for the named locals of one body"""
    body = fn.body
    out = {}
    if not body.names:
        return out
    eb = ExprBuilder(body)
    returned = set()
    for d in body.defs().get(0, []):
        if d[0] == "st" and d[3]["rv"]["r"] == "use":
            a = d[3]["rv"]["a"]
            p = a.get("m", a.get("c")) if isinstance(a, dict) else None
            if isinstance(p, int):
                returned.add(p)
    for l in sorted(body.names):
        parts = ["T=" + re.sub(r"\s+", "", body.local_ty(l))[:80]]
        if 1 <= l <= body.argc:
            parts.append("arg%d" % l)
        if l in returned:
            parts.append("ret")
        defs = []
        for d in body.defs().get(l, []):
            try:
                if d[0] == "st":
                    dest = d[3]["p"]
                    path = "" if isinstance(dest, int) else "".join(e for e in dest["p"] if not e.startswith("["))
                    defs.append(path + "=" + _canon(body, eb.rvalue(d[3]["rv"])))
                else:
                    defs.append("=" + _canon(body, eb.call_node(d[2], d[1])))
            except Exception:
                defs.append("=?")
        parts.append("|".join(sorted(set(defs)))[:1500])
        out[l] = ";".join(parts)
    return out


def build_table(prog):
    table = {}
    for fn in prog.fns.values():
        if fn.raw.get("impl_derived") or not fn.body.names:
            continue
        sigs = signatures(fn)
        by_sig = {}
        for l in sorted(sigs, key=lambda l: first_def_pos(fn.body, l)):
            by_sig.setdefault(sigs[l], []).append(fn.body.names[l])
        # locals that share a signature (three `Vec::new()` work lists, two `String` cursors) are told apart by the order of their first definition
        entry = {sg: names for sg, names in by_sig.items()}
        if entry:
            table[fn.id] = entry
    return table


def first_def_pos(body, l):
    if 1 <= l <= body.argc:
        return (-1, l)
    order = getattr(body, "_rpo_index", None)
    if order is None:
        order = {b: i for i, b in enumerate(body.rpo())}
        body._rpo_index = order
    best = (10 ** 9, 0)
    for d in body.defs().get(l, []):
        b = d[1]
        i = d[2] if d[0] == "st" else 10 ** 6
        pos = (order.get(b, 10 ** 8), i)
        if pos < best:
            best = pos
    return best + (l,)


def load_table():
    global _table
    if _table is None:
        try:
            _table = json.load(open(TABLE))
        except (OSError, ValueError):
            _table = {}
    return _table


def apply(prog):
    """rename locals to their recorded role names; returns the number of renamed locals"""
    table = load_table()
    n = 0
    renamed_src = {}        # root function id -> {source name -> role name}
    if not table:
        return 0
    for fn in prog.fns.values():
        entry = table.get(fn.id)
        if not entry or not fn.body.names:
            continue
        recorded = {n_ for names in entry.values() for n_ in names}
        if set(fn.body.names.values()) <= recorded:
            continue          # every local still carries a recorded name: nothing was renamed here
        sigs = signatures(fn)
        groups = {}
        for l in sorted(sigs, key=lambda l: first_def_pos(fn.body, l)):
            groups.setdefault(sigs[l], []).append(l)
        newnames = {}
        for sg, ls in groups.items():
            names = entry.get(sg)
            if not names or len(names) != len(ls):
                continue          # a local was added or removed among those that look alike: leave the group as written
            for l, want in zip(ls, names):
                if fn.body.names[l] != want:
                    newnames[l] = want
        # do not create a clash with an existing different local of that name
        existing = set(fn.body.names.values())
        for l, want in newnames.items():
            if want in existing and any(fn.body.names[l2] == want and sigs.get(l2) != sigs[l] for l2 in fn.body.names):
                continue
            renamed_src.setdefault(prog.root_of(fn).id, {})[fn.body.names[l]] = want
            fn.body.names[l] = want
            n += 1
    # captured variables carry the source name of the local they capture: closures see the same renaming as the bodies that own those locals
    for fn in prog.fns.values():
        m = renamed_src.get(prog.root_of(fn).id)
        if m and fn.body.upvars:
            for i, nm in list(fn.body.upvars.items()):
                if nm in m:
                    fn.body.upvars[i] = m[nm]
    return n
