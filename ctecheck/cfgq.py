"""A1 queries: dominating branch conditions, closure environments, iterator-chain sources."""
from .exprs import ExprBuilder, short_callee, leaf_name, show, walk, TRANSPARENT, strip, origin_desc
from .mir import callee_name, callee_of, op_place, pl_local


def dominating_conditions(body, bb, eb=None):
    """Conditions that hold on every path from entry to block bb, read off dominating switch edges.
    Returns list of (switch_block, discr_node, taken) where taken is the switch value string or
    'else:<excluded values>' for the otherwise edge."""
    eb = eb or ExprBuilder(body)
    out = []
    seen = set()
    for d in range(body.n):
        if d == bb or not body.dominates(d, bb):
            continue
        t = body.blocks[d]["term"]
        if t["t"] != "switch":
            continue
        # which successor edges lead to bb with edge dominance?
        taken = []
        for val, tgt in t["arms"]:
            if body.edge_dominates(d, tgt, bb) and tgt != t["else"]:
                taken.append(val)
        els = t["else"]
        if body.edge_dominates(d, els, bb) and all(tgt != els for _, tgt in t["arms"]):
            taken.append("else:" + ",".join(v for v, _ in t["arms"]))
        if len(taken) == 1:
            out.append((d, eb.operand(t["d"]), taken[0]))
    return out


def bool_taken(taken):
    """interpret a switch edge on a bool discriminant: returns True/False (value of the condition)"""
    if taken == "0":
        return False
    if taken == "else:0":
        return True
    if taken == "1":
        return True
    if taken == "else:1":
        return False
    return None


ITER_START = {"iter", "into_iter", "iter_mut", "values", "keys", "values_mut", "drain", "chars", "lines", "split", "bytes"}
ITER_KEEP = {"filter", "cloned", "copied", "rev", "skip", "take", "peekable", "by_ref", "skip_while", "take_while",
             "step_by", "inspect", "fuse"}
ITER_MAP = {"map", "filter_map", "flat_map", "flatten", "enumerate", "zip", "chain", "cycle", "scan", "map_while"}


class Chain:
    """an iterator chain: source node + list of (adaptor, closure node|None)"""

    def __init__(self, source, steps):
        self.source = source
        self.steps = steps

    def source_name(self):
        return leaf_name(strip(self.source))

    def adaptors(self):
        return [s[0] for s in self.steps]

    def __repr__(self):
        return "Chain(%s; %s)" % (show(self.source)[:80], self.adaptors())


def iter_chain(n):
    """decompose an iterator-valued node into source collection and adaptor steps (outermost last)"""
    steps = []
    cur = n
    while True:
        cur = strip(cur)
        if cur[0] != "call" or not cur[2]:
            break
        nm = short_callee(cur[1])
        if nm in ITER_START:
            steps.append((nm, None))
            cur = cur[2][0]
            continue
        if nm in ITER_KEEP or nm in ITER_MAP:
            steps.append((nm, cur[2][1] if len(cur[2]) > 1 else None))
            cur = cur[2][0]
            continue
        if nm == "collect":
            steps.append(("collect", None))
            cur = cur[2][0]
            continue
        break
    steps.reverse()
    return Chain(cur, steps)


def closure_id_of(node):
    """closure def id from an aggregate node ('agg', 'closure:<id>', ...) or fn item const"""
    if node is None:
        return None
    node = strip(node)
    while node[0] == "cast":
        node = strip(node[1])       # a closure coerced / re-borrowed on its way to the adaptor
    if node[0] == "agg" and node[1].startswith("closure:"):
        return node[1][len("closure:"):]
    if node[0] == "kx":
        d = dict(node[1])
        return d.get("closure") or None
    return None


def fn_item_of(node):
    if node is not None and node[0] == "kx":
        d = dict(node[1])
        return d.get("rfn") or d.get("fn")
    return None


def _uncast(node):
    node = strip(node)
    while node[0] == "cast":
        node = strip(node[1])
    return node


def closure_env(node):
    """upvar index -> creator-side node, for a closure aggregate node"""
    node = _uncast(node)
    if node[0] == "agg" and node[1].startswith("closure:"):
        return {i: strip(o) for i, o in enumerate(node[3])}
    return {}


def returned_nodes(body, eb=None):
    """nodes assigned to the return place _0 (whole assignments), with their blocks"""
    eb = eb or ExprBuilder(body)
    out = []
    for d in body.defs().get(0, []):
        if d[0] == "st":
            if isinstance(d[3]["p"], int):
                out.append((d[1], eb.rvalue(d[3]["rv"])))
        else:
            out.append((d[1], eb.call_node(d[2], d[1])))
    return out


def calls_named(body, suffixes):
    if isinstance(suffixes, str):
        suffixes = [suffixes]
    out = []
    for b, t in body.calls():
        nm = callee_name(t) or ""
        sc = short_callee(nm)
        if any(sc == s or nm.endswith(s) for s in suffixes):
            out.append((b, t))
    return out


# --------------------------------------------------------------------------- closure rewriting

def rewrite(node, env, elem):
    """rewrite a closure-side node into creator-side terms: upvars -> env nodes, first parameter -> elem node"""
    k = node[0]
    if k == "upvar":
        return env.get(node[1], node)
    if k == "arg":
        if node[1] == 2 and elem is not None:
            return elem
        return node
    if k == "proj":
        from .exprs import mkproj
        return mkproj(rewrite(node[1], env, elem), node[2])
    if k == "bin":
        return ("bin", node[1], rewrite(node[2], env, elem), rewrite(node[3], env, elem))
    if k == "un":
        return ("un", node[1], rewrite(node[2], env, elem))
    if k == "cast":
        return ("cast", rewrite(node[1], env, elem), node[2])
    if k == "discr":
        return ("discr", rewrite(node[1], env, elem))
    if k == "call":
        return ("call", node[1], tuple(rewrite(a, env, elem) for a in node[2]), node[3])
    if k == "agg":
        return ("agg", node[1], node[2], tuple(rewrite(a, env, elem) for a in node[3]))
    return node


def bind_args(node, argmap):
    """substitute the parameters of a function body's node by the caller's argument nodes ({1-based index: node})"""
    k = node[0]
    if k == "arg":
        return argmap.get(node[1], node)
    if k == "proj":
        from .exprs import mkproj
        return mkproj(bind_args(node[1], argmap), node[2])
    if k == "bin":
        return ("bin", node[1], bind_args(node[2], argmap), bind_args(node[3], argmap))
    if k == "un":
        return ("un", node[1], bind_args(node[2], argmap))
    if k == "cast":
        return ("cast", bind_args(node[1], argmap), node[2])
    if k == "discr":
        return ("discr", bind_args(node[1], argmap))
    if k == "call":
        return ("call", node[1], tuple(bind_args(a, argmap) for a in node[2]), node[3])
    if k == "agg":
        return ("agg", node[1], node[2], tuple(bind_args(a, argmap) for a in node[3]))
    return node


def elem_node(chain):
    """pseudo-leaf for 'an element of the collection this chain iterates'"""
    return elem_of_chain(chain)


# --------------------------------------------------------------------------- scopes (function + nested closures)

ELEM_CONSUMERS = {"for_each", "map", "filter", "filter_map", "flat_map", "any", "all", "find", "find_map", "position",
                  "take_while", "skip_while", "inspect", "partition", "max_by", "min_by", "sum", "retain", "map_while",
                  "try_for_each", "for_each_mut", "sort_by", "sort_by_key", "max_by_key", "min_by_key", "count"}
FOLD_LIKE = {"fold", "try_fold", "reduce", "scan"}
OPTION_COMBINATORS = {"map", "and_then", "map_or", "map_or_else", "filter", "is_some_and", "unwrap_or_else", "or_else",
                      "ok_or_else", "map_err", "then", "then_some", "inspect"}


def norm_for_elem(node, owner=None):
    """rewrite `next(iterator)@Some.0...` (for-loop element) into an elem pseudo-leaf"""
    from .exprs import mkproj
    k = node[0]
    if k == "proj":
        base = norm_for_elem(node[1], owner)
        pr = node[2]
        if base[0] == "call" and short_callee(base[1]) == "next" and base[2] and len(pr) >= 2 and pr[0] == "@Some" and pr[1] == ".0":
            ch = iter_chain(base[2][0])
            if ch.steps:
                return mkproj(elem_of_chain(ch, owner), pr[2:])
        return mkproj(base, pr)
    if k == "bin":
        return ("bin", node[1], norm_for_elem(node[2], owner), norm_for_elem(node[3], owner))
    if k == "un":
        return ("un", node[1], norm_for_elem(node[2], owner))
    if k == "cast":
        return ("cast", norm_for_elem(node[1], owner), node[2])
    if k == "discr":
        return ("discr", norm_for_elem(node[1], owner))
    if k == "call":
        return ("call", node[1], tuple(norm_for_elem(a, owner) for a in node[2]), node[3])
    if k == "agg":
        return ("agg", node[1], node[2], tuple(norm_for_elem(a, owner) for a in node[3]))
    return node


ELEM_SOURCES = {}     # (name, adaptors) of an elem pseudo-leaf -> the chain it stands for (rules that need the collection's own definition look it up here)


def elem_of_chain(ch, owner=None):
    """element node of a chain; if the chain maps through enumerate/zip etc. the adaptors are recorded.  The chain itself is remembered under the
    element's (abbreviated) name, per owning function when the caller says which one it is (names such as `Range{..}` repeat across functions)"""
    e = ("elem", ch.source_name() or origin_desc(strip(ch.source)), tuple(ch.adaptors()))
    ELEM_SOURCES.setdefault((e[1], e[2]), ch)
    if owner is not None:
        ELEM_SOURCES.setdefault((owner, e[1], e[2]), []).append(ch)
    return e


class Scope:
    def __init__(self, prog, fn, env=None, elem=None, parent=None, via=None, elem_arg=2, argmap=None):
        self.prog = prog
        self.argmap = argmap or {}     # parameter local -> caller's argument node (inlined helper functions)
        self.ctx_conds = []            # conditions that hold whenever this body runs (at the site that creates the closure / calls the helper)
        self.fn = fn
        self.body = fn.body
        self.eb = ExprBuilder(self.body)
        self.env = env or {}
        self.elem = elem
        self.elem_arg = elem_arg
        self.parent = parent
        self.via = via            # (adaptor name, chain) the closure was applied through

    def _rw(self, node):
        node = norm_for_elem(node, self.prog.root_of(self.fn).id)
        if self.parent is None and not self.env and self.elem is None and not self.argmap:
            return node
        env = self.env
        elem = self.elem
        ea = self.elem_arg
        am = self.argmap

        def rw(n):
            k = n[0]
            if k == "upvar":
                return env.get(n[1], n)
            if k == "arg":
                if n[1] == ea and elem is not None:
                    return elem
                if n[1] in am:
                    return am[n[1]]
                return n
            if k == "proj":
                from .exprs import mkproj
                return mkproj(rw(n[1]), n[2])
            if k == "bin":
                return ("bin", n[1], rw(n[2]), rw(n[3]))
            if k == "un":
                return ("un", n[1], rw(n[2]))
            if k == "cast":
                return ("cast", rw(n[1]), n[2])
            if k == "discr":
                return ("discr", rw(n[1]))
            if k == "call":
                return ("call", n[1], tuple(rw(a) for a in n[2]), n[3])
            if k == "agg":
                return ("agg", n[1], n[2], tuple(rw(a) for a in n[3]))
            return n
        return rw(node)

    def operand(self, op):
        return self._rw(self.eb.operand(op))

    def place(self, p):
        return self._rw(self.eb.place(p))

    def local(self, l):
        return self._rw(self.eb.local(l))

    def rvalue(self, rv):
        return self._rw(self.eb.rvalue(rv))

    def conditions(self, bb):
        """dominating conditions of block bb in this scope, plus those of the enclosing scopes' creation sites"""
        out = list(self.ctx_conds) + [(self, d, self._rw(n), tk) for (d, n, tk) in dominating_conditions(self.body, bb, self.eb)]
        return out

    def own_conditions(self, bb):
        return [(self, d, self._rw(n), tk) for (d, n, tk) in dominating_conditions(self.body, bb, self.eb)]

    def children(self):
        """scopes of closures created in this body and passed to a call"""
        out = []
        for b, t in self.body.calls():
            nm = callee_name(t) or ""
            sc = short_callee(nm)
            for ai, a in enumerate(t["args"]):
                an = strip(self.eb.operand(a))
                cid = closure_id_of(an)
                if not cid or cid not in self.prog.fns:
                    continue
                env = {i: self._rw(o) for i, o in closure_env(an).items()}
                elem = None
                elem_arg = 2
                via = (sc, None)
                if ai >= 1:
                    recv = self.operand(t["args"][0])
                    is_iter = ("iter::" in nm or "Iterator" in nm or "slice::" in nm or "vec::Vec" in nm)
                    if sc in FOLD_LIKE and is_iter:
                        ch = iter_chain(recv)
                        elem = elem_of_chain(ch, self.prog.root_of(self.fn).id)
                        elem_arg = 3
                        via = (sc, ch)
                    elif (sc in ELEM_CONSUMERS) and is_iter and "option::Option" not in nm and "result::Result" not in nm:
                        ch = iter_chain(recv)
                        elem = elem_of_chain(ch, self.prog.root_of(self.fn).id)
                        via = (sc, ch)
                    elif "option::Option" in nm and sc in OPTION_COMBINATORS:
                        from .exprs import mkproj
                        elem = mkproj(strip(recv), ("@Some", ".0"))
                        via = (sc, None)
                    elif "result::Result" in nm and sc in OPTION_COMBINATORS:
                        from .exprs import mkproj
                        elem = mkproj(strip(recv), ("@Ok", ".0"))
                        via = (sc, None)
                ch_ = Scope(self.prog, self.prog.fns[cid], env, elem, self, via, elem_arg)
                ch_.ctx_conds = self._site_conds(b)
                # data-flow conditions: `cond.then(|| ..)` runs its closure iff cond; `opt.map(|x| ..)` / and_then / inspect iff opt is Some
                if ai >= 1 and sc in ("then", "then_some") and "bool" in nm:
                    ch_.ctx_conds = ch_.ctx_conds + [(self, None, self.operand(t["args"][0]), "1")]
                elif ai >= 1 and "option::Option" in nm and sc in ("map", "and_then", "inspect", "filter", "is_some_and", "map_or", "map_or_else") and ai == len(t["args"]) - 1:
                    ch_.ctx_conds = ch_.ctx_conds + [(self, None, ("discr", self.operand(t["args"][0])), "1")]
                out.append((b, t, ch_))
        # closures bound to a local (`let f = |x| ..; f(a)`) are not arguments of any call: they are scopes of this body all the same
        passed = {ch.fn.id for (_, _, ch) in out}
        for b, i, s in self.body.statements():
            if s["s"] == "assign" and s["rv"]["r"] == "agg" and s["rv"].get("closure"):
                cid = s["rv"]["closure"]
                if cid in passed or cid not in self.prog.fns:
                    continue
                an = strip(self.eb.rvalue(s["rv"]))
                env = {i2: self._rw(o) for i2, o in closure_env(an).items()}
                passed.add(cid)
                out.append((b, None, Scope(self.prog, self.prog.fns[cid], env, None, self, ("local", None), 2)))
        return out

    def _site_conds(self, b):
        """conditions that hold at block b of this body, except loop exits and `?` (they say nothing about the data being processed)"""
        out = list(self.ctx_conds)
        for (sc_, d, n, tk) in self.own_conditions(b):
            n_ = strip(n)
            if n_[0] == "discr" and ("next(" in show(n_) or "branch(" in show(n_)):
                continue
            out.append((sc_, d, n, tk))
        return out

    def local_scopes(self):
        """this body and its closures only (for callers that enumerate every function of a module themselves)"""
        yield self
        for (_, _, ch) in self.children():
            yield from ch.local_scopes()

    def all_scopes(self, _depth=0, _seen=None):
        """this body, its closures, and (interprocedurally) the private helper functions of the same module it calls, each instantiated
        at its call site with the parameters bound to the caller's arguments - so that moving a loop or a literal into a helper does not hide it"""
        yield self
        for (_, _, ch) in self.children():
            yield from ch.all_scopes(_depth, _seen)
        if _depth >= 3 or not FOLLOW_HELPERS:
            return
        _seen = _seen if _seen is not None else {self.prog.root_of(self.fn).id}
        mod = self.prog.root_of(self.fn).path.rsplit("::", 1)[0]
        for b, t in self.body.calls():
            c = callee_of(t)
            if not c:
                continue
            fn = self.prog.fns.get(c.get("rid") or c["id"])
            if fn is None or fn.kind not in ("fn", "assocfn") or fn.raw.get("pub") or fn.id in _seen or fn.body.argc != len(t["args"]):
                continue
            if fn.raw.get("impl_trait") or fn.raw.get("impl_derived"):
                continue
            if not same_module(fn.path, self.prog.root_of(self.fn).path):
                continue
            hsc = Scope(self.prog, fn, argmap={i + 1: self.operand(a) for i, a in enumerate(t["args"])}, parent=None, via=("helper", None))
            hsc.ctx_conds = self._site_conds(b)
            yield from hsc.all_scopes(_depth + 1, _seen | {fn.id})


def module_of(path):
    """module part of a pretty function path: `a::b::<impl T>::f`, `a::b::T::f`, `a::<b::T as Tr>::f`, `a::b::f` -> `a::b`"""
    p = path.split("::{closure")[0]
    if "::<impl " in p:
        return p.split("::<impl ")[0]
    if "::<" in p:
        head, rest = p.split("::<", 1)
        inner = rest.split(" as ")[0].split(">")[0]
        inner_mod = inner.rsplit("::", 1)[0] if "::" in inner else ""
        return head + ("::" + inner_mod if inner_mod else "")
    parts = p.split("::")
    if len(parts) >= 3 and parts[-2][:1].isupper():
        return "::".join(parts[:-2])
    return "::".join(parts[:-1])


def same_module(a, b):
    return module_of(a) == module_of(b)


# --------------------------------------------------------------------------- element provenance (collections / iterator chains)

class UnknownTransfer(Exception):
    pass


SAME_ELEMS = {"iter", "into_iter", "iter_mut", "cloned", "copied", "filter", "rev", "skip", "take", "collect", "values",
              "values_mut", "drain", "peekable", "by_ref", "skip_while", "take_while", "fuse", "inspect", "to_vec", "to_owned",
              "clone", "into_values", "step_by", "sorted", "unique", "dedup"}


def elem_prov(prog, node, depth=0):
    """set of leaf names describing where the elements of a collection/iterator node come from"""
    if depth > 12:
        raise UnknownTransfer("too deep")
    n = strip(node)
    if n[0] == "call":
        nm = short_callee(n[1])
        if nm == "flatten" and n[2]:
            return elem_prov(prog, n[2][0], depth + 1)
        if nm in SAME_ELEMS and n[2]:
            return elem_prov(prog, n[2][0], depth + 1)
        if nm in ("map", "flat_map", "filter_map") and len(n[2]) == 2:
            src = elem_prov(prog, n[2][0], depth + 1)
            cl = strip(n[2][1])
            cid = closure_id_of(cl)
            out = set()
            if cid and cid in prog.fns:
                cfn = prog.fns[cid]
                env = closure_env(cl)
                for s in src:
                    sc = Scope(prog, cfn, env, ("elem", s[:-2], ()) if s.endswith("[]") else ("named", s))
                    rns = returned_nodes(cfn.body)
                    if not rns:
                        raise UnknownTransfer("closure without return value")
                    for (_, rn) in rns:
                        out |= value_prov(prog, sc._rw(rn), depth + 1)
                return out
            fi = fn_item_of(cl)
            if fi:
                return {"%s->%s" % (s, short_callee(fi)) for s in src}
            raise UnknownTransfer("map over unknown callable %s" % show(cl)[:60])
        if nm == "chain" and len(n[2]) == 2:
            return elem_prov(prog, n[2][0], depth + 1) | elem_prov(prog, n[2][1], depth + 1)
        if nm == "keys" and n[2]:
            return {x + ".key" for x in elem_prov(prog, n[2][0], depth + 1)}
        if nm == "enumerate" and n[2]:
            return {"(index)"} | elem_prov(prog, n[2][0], depth + 1)
        if nm == "zip" and len(n[2]) == 2:
            return elem_prov(prog, n[2][0], depth + 1) | elem_prov(prog, n[2][1], depth + 1)
        inl = inline_helper(prog, n) if prog is not None else None
        if inl is not None:
            return elem_prov(prog, inl, depth + 1)
        raise UnknownTransfer("unmodelled collection transfer `%s`" % nm)
    if n[0] == "agg":
        out = set()
        for o in n[3]:
            out |= value_prov(prog, o, depth + 1)
        return out
    ln = leaf_name(n)
    if ln is not None:
        return {ln + "[]"}
    raise UnknownTransfer("collection of unknown origin: %s" % show(n)[:80])


def value_prov(prog, node, depth=0):
    """provenance of a value: leaf names of what it is (a copy of); Options and arrays are transparent"""
    n = strip(node)
    if n[0] == "agg":
        out = set()
        for o in n[3]:
            out |= value_prov(prog, o, depth + 1)
        return out
    ln = leaf_name(n)
    if ln is not None:
        if ln.endswith("@Some.0"):
            ln = ln[:-len("@Some.0")]
        return {ln}
    if n[0] == "call":
        nm = short_callee(n[1])
        if nm in ("unwrap", "expect", "unwrap_or_default", "ok", "unwrap_or") and n[2]:
            return value_prov(prog, n[2][0], depth + 1)
        try:
            return elem_prov(prog, n, depth + 1)
        except UnknownTransfer:
            return {"call:" + nm}
    if n[0] == "k":
        return {"const:" + n[1]}
    return {"?" + show(n)[:40]}


# --------------------------------------------------------------------------- inlining of small helper functions

FOLLOW_HELPERS = True     # all_scopes() descends into private free functions of the same module
PROG = None      # set by run.py: the Program the rules run on (needed to resolve helper calls inside expression trees)


def inline_helper(prog, n, depth=0):
    """if call node n is a call of a straight-line workspace function (no branches, no loops, one returned expression), return that
    expression with the parameters bound to the call's arguments; else None.  A helper that merely names a sub-expression
    (`space.volume_net(..)` = area * height) is thereby transparent to the formula and chain comparisons, while a helper that
    adds a condition keeps its own name and is compared as an unknown."""
    prog = prog or PROG
    if prog is None or depth > 3 or n[0] != "call":
        return None
    ids = prog.callee_index().get(n[1], ())
    if len(ids) != 1:
        return None
    fn = prog.fns[next(iter(ids))]
    body = fn.body
    if fn.kind not in ("fn", "assocfn") or body.argc != len(n[2]) or body.n > 40:
        return None
    for b in range(body.n):
        if body.is_cleanup(b):
            continue
        if body.blocks[b]["term"]["t"] == "switch":
            return None
    if body.loops():
        return None
    rns = returned_nodes(body)
    if len(rns) != 1:
        return None
    sc = Scope(prog, fn, argmap={i + 1: a for i, a in enumerate(n[2])})
    r = sc._rw(rns[0][1])
    if any(x[0] in ("var",) and x[1] <= body.argc for x in walk(r)):
        return None
    return r


def inline_all(prog, node, depth=0, keep=()):
    """the expression with every call of a straight-line workspace helper replaced by the helper's returned expression (arguments bound), bottom-up,
    and projections of struct literals reduced (`SinCos::of(x).sin` -> sind(x))"""
    from .exprs import mkproj
    n = node
    k = n[0]
    if depth > 8:
        return n
    if k == "proj":
        base = inline_all(prog, n[1], depth, keep)
        b = strip(base)
        if b[0] == "agg" and n[2] and not n[2][0].startswith(("@", "[")) and n[2][0].lstrip(".") in b[2]:
            fld = b[3][b[2].index(n[2][0].lstrip("."))]
            return inline_all(prog, mkproj(fld, n[2][1:]) if len(n[2]) > 1 else fld, depth + 1, keep)
        return mkproj(base, n[2])
    if k == "bin":
        return ("bin", n[1], inline_all(prog, n[2], depth, keep), inline_all(prog, n[3], depth, keep))
    if k == "un":
        return ("un", n[1], inline_all(prog, n[2], depth, keep))
    if k == "cast":
        return ("cast", inline_all(prog, n[1], depth, keep), n[2])
    if k == "agg":
        return ("agg", n[1], n[2], tuple(inline_all(prog, a, depth, keep) for a in n[3]))
    if k == "call":
        m = ("call", n[1], tuple(inline_all(prog, a, depth, keep) for a in n[2]), n[3])
        if short_callee(n[1]) in keep:
            return m
        inl = inline_helper(prog, m)
        if inl is not None:
            return inline_all(prog, inl, depth + 1, keep)
        return m
    return n


# --------------------------------------------------------------------------- scope instances across helper functions

def scope_instances(prog, root_fn, follow, maxdepth=4):
    """every body that runs as part of root_fn - its closures, and the workspace functions `follow(fn)` accepts, instantiated once per call
    site with the parameters bound to the caller's arguments - together with the conditions that hold whenever it runs.
    Returns [(scope, [(condition node, switch edge)] gathered along the way, call chain as text)]."""
    out = []

    def rec(sc, ctx_conds, depth, chain):
        out.append((sc, ctx_conds, chain))
        if depth >= maxdepth:
            return
        for (b, t, ch) in sc.children():
            here = [(n, tk) for (_, d, n, tk) in sc.conditions(b)]
            rec(ch, ctx_conds + here, depth + 1, chain)
        for b, t in sc.body.calls():
            c = callee_of(t)
            if not c:
                continue
            tid = c.get("rid") or c["id"]
            fn = prog.fns.get(tid)
            if fn is None or fn.kind not in ("fn", "assocfn") or not follow(fn) or fn.id == sc.fn.id:
                continue
            if fn.body.argc != len(t["args"]):
                continue
            here = [(n, tk) for (_, d, n, tk) in sc.conditions(b)]
            hsc = Scope(prog, fn, argmap={i + 1: sc.operand(a) for i, a in enumerate(t["args"])})
            rec(hsc, ctx_conds + here, depth + 1, chain + [fn.path.split("::")[-1]])
        # a function item passed where a closure is expected: `iter().filter_map(check_one)`
        for b, t in sc.body.calls():
            nm = callee_name(t) or ""
            if short_callee(nm) not in ELEM_CONSUMERS or len(t["args"]) < 2:
                continue
            for a in t["args"][1:]:
                fi = fn_item_of(strip(sc.eb.operand(a)))
                if not fi:
                    continue
                ids = prog.callee_index().get(fi, ()) or {f.id for f in prog._by_path.get(fi, [])}
                if len(ids) != 1:
                    continue
                fn = prog.fns[next(iter(ids))]
                if not follow(fn) or fn.body.argc != 1:
                    continue
                here = [(n, tk) for (_, d, n, tk) in sc.conditions(b)]
                elem = elem_of_chain(iter_chain(sc.operand(t["args"][0])))
                hsc = Scope(prog, fn, argmap={1: elem})
                rec(hsc, ctx_conds + here, depth + 1, chain + [fn.path.split("::")[-1]])
    rec(Scope(prog, root_fn), [], 0, [root_fn.path.split("::")[-1]])
    return out


def beta(prog, node, depth=0):
    """inline calls of closure *values* (`id_of(item)` where id_of is bound to a closure aggregate): Fn::call(closure, (args..)) -> the
    closure's returned expression with its parameters bound.  Other nodes are rebuilt with their children reduced."""
    if depth > 6:
        return node
    n = node
    k = n[0]
    if k == "call":
        args = tuple(beta(prog, a, depth + 1) for a in n[2])
        n = ("call", n[1], args, n[3])
        sc_ = short_callee(n[1])
        if sc_ in ("call", "call_mut", "call_once") and ("ops::Fn" in n[1] or "function::Fn" in n[1]) and len(args) == 2:
            clo = strip(args[0])
            cid = closure_id_of(clo)
            tup = strip(args[1])
            if cid in prog.fns and tup[0] == "agg":
                cf = prog.fns[cid]
                rns = returned_nodes(cf.body)
                if len(rns) == 1:
                    csc = Scope(prog, cf, closure_env(clo), None, None, argmap={i + 2: a for i, a in enumerate(tup[3])})
                    return beta(prog, csc._rw(rns[0][1]), depth + 1)
            # a function item called as a value (`.map(SpaceProps::volume)`, `term(s)` with term = a fn): a plain call of that function
            fi = fn_item_of(clo) if tup[0] == "agg" else None
            if fi:
                return ("call", fi, tuple(tup[3]), None)
        return n
    if k == "proj":
        from .exprs import mkproj
        return mkproj(beta(prog, n[1], depth + 1), n[2])
    if k == "bin":
        return ("bin", n[1], beta(prog, n[2], depth + 1), beta(prog, n[3], depth + 1))
    if k == "un":
        return ("un", n[1], beta(prog, n[2], depth + 1))
    if k == "agg" and not n[1].startswith("closure:"):
        return ("agg", n[1], n[2], tuple(beta(prog, a, depth + 1) for a in n[3]))
    return n
