"""A8: type-graph walks over the ADT facts."""


def tree_adts(tree, out=None):
    """all ADT ids mentioned in a type tree (any depth)"""
    if out is None:
        out = []
    if tree.get("k") == "adt":
        out.append(tree["id"])
    for a in tree.get("args", []) or []:
        tree_adts(a, out)
    return out


def tree_str(tree):
    k = tree.get("k")
    if k == "adt":
        a = tree.get("args") or []
        return tree["path"] + ("<" + ", ".join(tree_str(x) for x in a) + ">" if a else "")
    if k in ("ref", "ptr"):
        return ("&" if k == "ref" else "*") + tree_str(tree["args"][0])
    if k == "tuple":
        return "(" + ", ".join(tree_str(x) for x in tree["args"]) + ")"
    if k in ("array", "slice"):
        return "[" + tree_str(tree["args"][0]) + "]"
    return tree.get("s", k)


def closure(prog, roots):
    """transitive closure of field types from root ADT ids.
    returns (workspace adt ids visited, external adt ids mentioned, list of (owner adt, field, tree) for every field)"""
    seen = set()
    ext = {}
    fields = []
    work = list(roots)
    while work:
        a = work.pop()
        if a in seen:
            continue
        if a not in prog.adts:
            continue
        seen.add(a)
        adt = prog.adts[a]
        for v in adt["variants"]:
            for f in v["fields"]:
                fields.append((adt, v["name"], f))
                for x in tree_adts(f["tree"]):
                    if x in prog.adts:
                        work.append(x)
                    else:
                        ext.setdefault(x, []).append((adt["path"], f["name"]))
                walk_special(f["tree"], ext, adt["path"], f["name"])
    return seen, ext, fields


def walk_special(tree, ext, owner, fname):
    k = tree.get("k")
    if k in ("ptr", "fnptr", "dyn", "closure", "fndef"):
        ext.setdefault("<%s>" % k, []).append((owner, fname))
    for a in tree.get("args", []) or []:
        walk_special(a, ext, owner, fname)
