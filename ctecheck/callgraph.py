"""A2: whole-workspace call graph, over-approximate by construction.

Nodes are workspace body ids (functions, methods, closures, static/const initialisers).
`edges[f]` = set of workspace body ids f may cause to run.  `ext_calls[f]` = list of
(external callee name, line, term) made directly by f.
"""
from .mir import callee_of, op_const, pl_local


class CallGraph:
    def __init__(self, prog):
        self.prog = prog
        self.edges = {}
        self.wild_edges = {}
        self.ext_calls = {}
        self.edge_why = {}
        # trait impl index: (adt id) -> list of impl dicts ; trait path -> list of impls
        self.impls_by_adt = {}
        self.impls_by_trait = {}
        for imp in prog.impls:
            if imp.get("self_adt"):
                self.impls_by_adt.setdefault(imp["self_adt"], []).append(imp)
            self.impls_by_trait.setdefault(imp["trait"], []).append(imp)
        self.impl_by_id = {imp["id"]: imp for imp in prog.impls}
        self.static_init = {}
        for fn in prog.fns.values():
            if fn.kind in ("static", "const", "assocconst"):
                self.static_init[fn.path] = fn.id
        for fn in prog.fns.values():
            self._build(fn)

    def _add_wild(self, f, target, why):
        if target in self.prog.fns:
            self.wild_edges.setdefault(f, set()).add(target)
            self.edge_why.setdefault((f, target), why)

    def _add(self, f, target, why):
        if target in self.prog.fns:
            self.edges[f].add(target)
            self.edge_why.setdefault((f, target), why)

    def _impl_methods(self, imp):
        return [m["id"] for m in imp["methods"]]

    def _bounds_edges(self, fid, c, why):
        prog = self.prog
        if c.get("bprecise"):
            # resolved through the trait solver by the driver
            for iid in c.get("bimpls", []):
                imp = self.impl_by_id.get(iid)
                if imp:
                    for m in self._impl_methods(imp):
                        self._add(fid, m, why + " bound impl " + imp["trait"])
            for x in c.get("bcl", []):
                self._add(fid, x, why + " closure bound")
            for t in c.get("bdyn", []):
                for imp in self.impls_by_trait.get(t, []):
                    for m in self._impl_methods(imp):
                        self._add(fid, m, why + " dyn bound " + t)
            # bounds on the caller's own type parameters: the impls are charged to the (transitively) outermost
            # concrete instantiation site, whose bounds the driver resolved; kept separately for root functions
            for t in c.get("bwild", []):
                for imp in self.impls_by_trait.get(t, []):
                    for m in self._impl_methods(imp):
                        self._add_wild(fid, m, why + " wildcard bound " + t)
            return
        for b in c.get("bounds", []):
            traits = set(b["traits"])
            direct = b.get("direct")
            if direct and direct in prog.adts and not b.get("wild"):
                # exactly that trait (and supertraits) on that type
                for imp in self.impls_by_adt.get(direct, []):
                    if imp["trait"] in traits:
                        for m in self._impl_methods(imp):
                            self._add(fid, m, why + " bound " + imp["trait"])
                # plus nested types in the trait arguments: all their impls
                for a in b["adts"]:
                    if a != direct and a in prog.adts:
                        for imp in self.impls_by_adt.get(a, []):
                            for m in self._impl_methods(imp):
                                self._add(fid, m, why + " nested bound")
            else:
                for a in b["adts"]:
                    if a in prog.adts:
                        for imp in self.impls_by_adt.get(a, []):
                            for m in self._impl_methods(imp):
                                self._add(fid, m, why + " nested bound")
                    elif a in prog.fns:
                        self._add(fid, a, why + " closure bound")
                if b.get("wild"):
                    # type parameter / projection / dyn: every workspace impl of these traits
                    for t in traits:
                        for imp in self.impls_by_trait.get(t, []):
                            for m in self._impl_methods(imp):
                                self._add(fid, m, why + " wildcard bound " + t)

    def _const_edges(self, fid, k, why):
        if not k:
            return
        if "fn" in k:
            tid = k.get("rid") or k["id"]
            self._add(fid, tid, why + " fn item")
            self._add(fid, k["id"], why + " fn item")
            self._bounds_edges(fid, k, why + " fn item")
            for x in k.get("gcl", []) + k.get("gfn", []):
                self._add(fid, x, why + " generic arg")
        if "closure" in k:
            self._add(fid, k["closure"], why + " closure const")
        if "static" in k:
            sid = self.static_init.get(k["static"])
            if sid:
                self._add(fid, sid, why + " static")
        if "def" in k:
            sid = self.static_init.get(k["def"])
            if sid:
                self._add(fid, sid, why + " const")

    def _operand_edges(self, fid, op, why):
        if isinstance(op, dict) and "k" in op:
            self._const_edges(fid, op["k"], why)

    def _build(self, fn):
        prog = self.prog
        fid = fn.id
        self.edges[fid] = set()
        self.ext_calls[fid] = []
        body = fn.body
        for b in range(body.n):
            blk = body.blocks[b]
            for s in blk["st"]:
                if s["s"] != "assign":
                    continue
                rv = s["rv"]
                r = rv["r"]
                if r == "agg":
                    if rv.get("closure"):
                        self._add(fid, rv["closure"], "creates closure")
                    for o in rv["ops"]:
                        self._operand_edges(fid, o, "operand")
                elif r in ("use", "un", "repeat"):
                    self._operand_edges(fid, rv["a"], "operand")
                elif r == "bin":
                    self._operand_edges(fid, rv["a"], "operand")
                    self._operand_edges(fid, rv["b"], "operand")
                elif r == "cast":
                    self._operand_edges(fid, rv["a"], "cast")
                    if "Unsize" in rv["kind"] or "dyn" in rv["ty"]:
                        for a in rv.get("src_adts", []):
                            for imp in self.impls_by_adt.get(a, []):
                                # only the traits named in the target dyn type (and their supertraits, which a
                                # vtable also carries: approximated by Debug/Display/Error family)
                                tshort = imp["trait"].split("<")[0]
                                if tshort in rv["ty"] or ("Error" in rv["ty"] and tshort in ("std::fmt::Debug", "std::fmt::Display", "std::error::Error")):
                                    for m in self._impl_methods(imp):
                                        self._add(fid, m, "unsize to dyn")
                            if a in prog.fns:
                                self._add(fid, a, "closure to dyn")
            t = blk["term"]
            k = t["t"]
            if k in ("call", "tailcall"):
                c = callee_of(t)
                for a in t["args"]:
                    self._operand_edges(fid, a, "arg")
                if c is None:
                    # indirect call through fn pointer / closure value: closures are charged to creator
                    continue
                tid = c.get("rid") or c["id"]
                resolved_local = tid in prog.fns
                if resolved_local:
                    self._add(fid, tid, "call")
                for x in c.get("gcl", []) + c.get("gfn", []):
                    self._add(fid, x, "callee generic arg")
                rk = c.get("rk")
                if not resolved_local:
                    self.ext_calls[fid].append((c.get("rfn") or c["fn"], t.get("ln"), t))
                    self._bounds_edges(fid, c, "ext call " + c["fn"])
                else:
                    # local generic callee: its own body has the (unresolved) calls; but the bounds tell
                    # which impls the instantiation can reach
                    self._bounds_edges(fid, c, "call " + c["fn"])
                if rk in ("unresolved", "virtual", "error") or (c.get("trait") and not c.get("rfn") and not resolved_local):
                    tr = c.get("trait")
                    if tr:
                        name = c["fn"].rsplit("::", 1)[-1]
                        for imp in self.impls_by_trait.get(tr, []):
                            for m in imp["methods"]:
                                if m["name"] == name:
                                    if rk == "unresolved":
                                        self._add_wild(fid, m["id"], "unresolved trait call on a type parameter")
                                    else:
                                        self._add(fid, m["id"], "virtual/unresolved trait call")
            elif k == "drop":
                for a in t.get("padts", []):
                    for imp in self.impls_by_adt.get(a, []):
                        if imp["trait"].endswith("ops::Drop"):
                            for m in self._impl_methods(imp):
                                self._add(fid, m, "drop")
            elif k == "switch":
                self._operand_edges(fid, t["d"], "switch")

    def reachable(self, roots, wild_roots=True, cut=()):
        """bodies reachable from roots; bodies in `cut` are neither entered nor traversed"""
        seen = {}
        rootset = set(roots)
        st = [(r, None) for r in roots]
        while st:
            f, par = st.pop()
            if f in seen or f in cut:
                continue
            seen[f] = par
            for t in sorted(self.edges.get(f, ())):
                if t not in seen:
                    st.append((t, f))
            if wild_roots and (f in rootset or self.prog.fns[f].root in rootset):
                for t in sorted(self.wild_edges.get(f, ())):
                    if t not in seen:
                        st.append((t, f))
        return seen

    def chain(self, seen, f):
        out = []
        while f is not None:
            out.append(f)
            f = seen.get(f)
        out.reverse()
        return out

    def why_chain(self, seen, f):
        ch = self.chain(seen, f)
        out = []
        for a, b in zip(ch, ch[1:]):
            out.append("%s --[%s]--> %s" % (self.prog.fns[a].path, self.edge_why.get((a, b)), self.prog.fns[b].path))
        return out

    def pretty_chain(self, seen, f, maxlen=12):
        ch = self.chain(seen, f)
        names = []
        for x in ch:
            fn = self.prog.fns[x]
            n = self.prog.display(fn)
            if not names or names[-1] != n:
                names.append(n)
        if len(names) > maxlen:
            names = names[:4] + ["..."] + names[-(maxlen - 5):]
        return " -> ".join(names)
