"""A1: loop classification for termination (C13-D1, C14-D2, C19-D2)."""
import re

from .cfgq import iter_chain, strip, Scope
from .exprs import ExprBuilder, short_callee, show, walk, origin_desc
from .mir import callee_name, callee_of, op_place, pl_local

UNBOUNDED_SOURCES = {"repeat", "cycle", "from_fn", "successors", "repeat_with"}
BOUNDING = {"take", "zip", "take_while", "map_while"}


def chain_unbounded(node):
    """reason string if the iterator chain has an unbounded source not cut by a bounding adaptor"""
    n = strip(node)
    bounded = False
    cur = n
    for _ in range(40):
        cur = strip(cur)
        if cur[0] == "call" and cur[2]:
            nm = short_callee(cur[1])
            if nm in BOUNDING:
                if nm == "zip":
                    # zip is bounded if either side is bounded
                    r = chain_unbounded(cur[2][1]) if len(cur[2]) > 1 else None
                    l = chain_unbounded(cur[2][0])
                    return None if (r is None or l is None) else l
                bounded = True
            if nm in UNBOUNDED_SOURCES and not bounded:
                return "unbounded iterator source `%s`" % nm
            if nm in ("into_iter", "iter", "next", "by_ref", "map", "filter", "enumerate", "skip", "rev", "peekable", "flat_map",
                      "filter_map", "cloned", "copied", "chain", "step_by", "inspect", "skip_while", "flatten") or nm in BOUNDING:
                cur = cur[2][0]
                continue
            return None
        if cur[0] == "agg" and "RangeFrom" in cur[1] and not bounded:
            return "unbounded range `n..`"
        return None
    return None


def classify_loops(prog, fn):
    """list of dicts: header, blocks, kind ('iterator'|'pop'|'worklist'|'unknown'), detail, line"""
    body = fn.body
    out = []
    loops = body.loops()
    if not loops:
        return out
    eb = ExprBuilder(body)
    for h, blocks in sorted(loops.items()):
        info = {"header": h, "blocks": blocks, "fn": fn, "kind": "unknown", "detail": "", "line": None}
        # exits: edges from loop blocks to outside
        exits = [(b, s) for b in blocks for s in body.succs(b) if s not in blocks]
        calls = [(b, body.blocks[b]["term"]) for b in blocks if body.blocks[b]["term"]["t"] == "call"]
        lines = [t.get("ln") for _, t in calls if t.get("ln")]
        hdr_lines = [s.get("ln") for s in body.blocks[h]["st"] if s.get("ln")]
        info["line"] = min(lines + hdr_lines) if (lines or hdr_lines) else None
        nexts = [(b, t) for b, t in calls if short_callee(callee_name(t) or "") in ("next", "next_back")]
        pops = [(b, t) for b, t in calls if short_callee(callee_name(t) or "") in ("pop", "pop_front", "pop_back", "pop_first", "pop_last")]
        pushes = [(b, t) for b, t in calls if short_callee(callee_name(t) or "") in ("push", "push_back", "push_front", "insert", "extend")]
        # (i) iterator-driven: an exit edge is controlled by the discriminant of a next() result in this loop
        drv = None
        for (b, t) in nexts:
            dest = pl_local(t["dest"])
            nb = t.get("to")
            if nb is None:
                continue
            tt = body.blocks[nb]["term"]
            if tt["t"] == "switch" and any(s not in blocks for s in body.succs(nb)):
                drv = (b, t)
                break
        if drv:
            b, t = drv
            recv = eb.operand(t["args"][0])
            why = chain_unbounded(recv)
            src = iter_chain(recv)
            info["source"] = origin_desc(strip(src.source))
            info["source_node"] = strip(src.source)
            info["chain"] = src
            if why:
                info["kind"] = "unbounded-iterator"
                info["detail"] = why
            else:
                info["kind"] = "iterator"
                info["detail"] = "for/while-let over %s %s" % (origin_desc(strip(src.source)), src.adaptors())
            out.append(info)
            continue
        # (ii)/(iii): pop-driven
        if pops:
            popped = {origin_desc(strip(eb.operand(t["args"][0]))) for _, t in pops}
            pushed = {origin_desc(strip(eb.operand(t["args"][0]))) for _, t in pushes}
            info["popped"] = popped
            if popped & pushed:
                info["kind"] = "worklist"
                info["detail"] = "pops and pushes %s" % sorted(popped & pushed)
                info["pushes"] = [(b, t) for b, t in pushes if origin_desc(strip(eb.operand(t["args"][0]))) in popped]
            else:
                info["kind"] = "pop"
                info["detail"] = "pop-only loop on %s" % sorted(popped)
            out.append(info)
            continue
        info["detail"] = "loop without iterator or pop driver (calls: %s)" % sorted({short_callee(callee_name(t) or "?") for _, t in calls})[:6]
        out.append(info)
    return out


def early_exits(fn, info):
    """exit edges of an iterator-driven loop other than "the iterator is exhausted": a `break` or `return` in the body (an edge that leaves the loop from a block
    other than the one that tests next()); edges into `unreachable` blocks and the error edge of a `?` are not early exits"""
    body = fn.body
    blocks = info["blocks"]
    drv = set()
    for b in blocks:
        t = body.blocks[b]["term"]
        if t["t"] == "call" and short_callee(callee_name(t) or "") in ("next", "next_back") and t.get("to") is not None:
            drv.add(t["to"])
    eb = None
    out = []
    for b in sorted(blocks):
        for s_ in body.succs(b):
            if s_ in blocks or b in drv or body.blocks[s_]["term"]["t"] == "unreachable":
                continue
            t = body.blocks[b]["term"]
            if t["t"] == "switch":
                eb = eb or ExprBuilder(body)
                d = strip(eb.operand(t["d"]))
                if d[0] == "discr" and strip(d[1])[0] == "call" and short_callee(strip(d[1])[1]) == "branch":
                    continue
            out.append((b, s_))
    return out


def check_no_early_exit(ctx, rule, prog, fn, what):
    """every iterator-driven loop of fn (and of its closures) visits all the elements: a sum over the model's elements must not stop at the first element that is skipped"""
    n = 0
    for f_ in [fn] + prog.closures_of(fn):
        for info in classify_loops(prog, f_):
            if info["kind"] != "iterator":
                continue
            n += 1
            ex = early_exits(f_, info)
            key = "%s|%s" % (rule, info.get("source") or "?")
            if any(i.key == key for i in ctx.instances):
                key += "|%d" % n
            if ex:
                ln = None
                for s in f_.body.blocks[ex[0][0]]["st"]:
                    ln = s.get("ln") or ln
                ln = ln or f_.body.blocks[ex[0][0]]["term"].get("ln") or info["line"]
                ctx.violation(rule, key, "the loop over %s can be left before the last element (a `break` or `return` in its body): the elements after that point are not counted in %s, "
                              "and the result depends on the order of the elements" % (info.get("source"), what), f_.loc(ln))
            else:
                ctx.ok(rule, key, "the loop over %s ends only when its iterator is exhausted" % info.get("source"), f_.loc(info["line"]))
    return n


def unbounded_consumers(prog, fn):
    """iterator chains consumed by std consumers (collect, sum, for_each, count, last, fold...) with an unbounded source"""
    body = fn.body
    eb = ExprBuilder(body)
    out = []
    for b, t in body.calls():
        nm = callee_name(t) or ""
        sc = short_callee(nm)
        if sc in ("collect", "sum", "for_each", "count", "last", "fold", "max", "min", "product", "unzip", "partition", "max_by", "min_by", "extend"):
            if not t["args"]:
                continue
            n = eb.operand(t["args"][-1] if sc == "extend" else t["args"][0])
            why = chain_unbounded(n)
            if why:
                out.append((b, t, why))
    return out


def recursion_cycles(cg, seen):
    """strongly connected components (size>1 or self loops) in the reachable workspace graph"""
    idx = {}
    low = {}
    st = []
    on = set()
    res = []
    counter = [0]
    import sys
    sys.setrecursionlimit(10000)

    def sc(v):
        idx[v] = low[v] = counter[0]
        counter[0] += 1
        st.append(v)
        on.add(v)
        for w in cg.edges.get(v, ()):
            if w not in seen:
                continue
            if w not in idx:
                sc(w)
                low[v] = min(low[v], low[w])
            elif w in on:
                low[v] = min(low[v], idx[w])
        if low[v] == idx[v]:
            comp = []
            while True:
                w = st.pop()
                on.discard(w)
                comp.append(w)
                if w == v:
                    break
            if len(comp) > 1 or v in cg.edges.get(v, ()):
                res.append(comp)
    for v in sorted(seen):
        if v not in idx:
            sc(v)
    # cycles made only of const/static initialisers (serde's FIELDS/VARIANTS tables mention themselves) are not recursion
    res = [c for c in res if any(cg.prog.fns[x].kind in ("fn", "assocfn", "closure") for x in c)]
    return res


def skipping_path(body, blocks, header, starts, use, infeasible=()):
    """is there a path inside the loop (block set `blocks`, header `header`) from one of `starts` back to the header that touches none of the `use`
    blocks?  Error exits leave the loop and are not paths to the next iteration.  `infeasible` edges (b, successor) are not taken."""
    seen, todo = set(), list(starts)
    while todo:
        b = todo.pop()
        if b in seen or b in use:
            continue
        seen.add(b)
        for s_ in body.succs(b):
            if (b, s_) in infeasible:
                continue
            if s_ == header:
                if b not in starts:
                    return True
            elif s_ in blocks:
                todo.append(s_)
    return False
