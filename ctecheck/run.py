"""Check runner: facts -> rules -> verdicts -> evidence.  Exit 0 / 1 (VIOLATION) / 2 (ANALYSIS-ERROR)."""
import argparse
import importlib
import json
import os
import re
import sys
import time
import traceback

from . import facts
from .facts import AnalysisError, VERIF
from .mir import Program
from .callgraph import CallGraph

KNOWN_FILE = os.path.join(VERIF, "KNOWN_FINDINGS.txt")


class Instance:
    __slots__ = ("rule", "key", "verdict", "detail", "loc", "extra")

    def __init__(self, rule, key, verdict, detail, loc, extra=None):
        self.rule = rule
        self.key = key
        self.verdict = verdict      # ok | exception | violation | known
        self.detail = detail
        self.loc = loc
        self.extra = extra

    def as_dict(self):
        d = {"rule": self.rule, "key": self.key, "verdict": self.verdict, "detail": self.detail, "loc": self.loc}
        if self.extra:
            d["extra"] = self.extra
        return d


class Ctx:
    def __init__(self, prop, tier, seed, prog, tree_hash, facts_dir, fixture=None):
        self.prop = prop
        self.tier = tier
        self.seed = seed
        self.prog = prog
        self.tree_hash = tree_hash
        self.facts_dir = facts_dir
        self.fixture = fixture
        self.repo = None        # source tree the facts were extracted from (set by main)
        self._cg = None
        self.instances = []
        self.floors = []         # (rule, what, measured, minimum)
        self.notes = []
        self.extra_cov = {}
        self.trivial = 0
        self.in_fixture = False

    @property
    def cg(self):
        if self._cg is None:
            self._cg = CallGraph(self.prog)
        return self._cg

    # --- verdict registration
    def ok(self, rule, key, detail="", loc=None, extra=None):
        self.instances.append(Instance(rule, key, "ok", detail, loc, extra))

    def exception(self, rule, key, reason, loc=None):
        self.instances.append(Instance(rule, key, "exception", reason, loc))

    def violation(self, rule, key, diagnosis, loc=None, extra=None):
        self.instances.append(Instance(rule, key, "violation", diagnosis, loc, extra))

    def floor(self, rule, what, measured, minimum):
        # evaluated after the rules have run: an unmet floor is an ANALYSIS-ERROR only when no violation explains it
        self.floors.append((rule, what, measured, minimum))

    def require(self, cond, msg):
        if not cond:
            raise AnalysisError(msg)

    def note(self, s):
        self.notes.append(s)


def load_known(prop):
    opened = {}
    fixed = []
    if os.path.exists(KNOWN_FILE):
        for line in open(KNOWN_FILE):
            line = line.strip()
            if not line or line.startswith("#"):
                continue
            m = re.match(r'open:\s+property=(\S+)\s+key="([^"]*)"\s+(.*)$', line)
            if m:
                if m.group(1) == prop:
                    opened[m.group(2)] = m.group(3)
                continue
            m = re.match(r'fixed:\s+property=(\S+)\s+(.*)$', line)
            if m and m.group(1) == prop:
                fixed.append(m.group(2))
    return opened, fixed


def load_program(repo=None, all_targets=False):
    fdir, th = facts.ensure_facts(repo, all_targets=all_targets)
    raws = facts.load_raw(fdir)
    prog = Program(raws)
    prog.apply_roles()
    return prog, th, fdir


def load_fixture_program():
    fdir = facts.ensure_fixture_facts()
    raws = facts.load_raw(fdir)
    return Program(raws), fdir


def run_rules(mod, ctx):
    mod.run(ctx)
    return ctx


def positive_control(mod, tier, seed):
    """Run the property's rules on the fixture crate; each rule listed in mod.FIXTURE_EXPECT must fire."""
    expect = getattr(mod, "FIXTURE_EXPECT", None)
    if not expect:
        return {"skipped": True}
    prog, fdir = load_fixture_program()
    fctx = Ctx(mod.ID, tier, seed, prog, "fixture", fdir)
    fctx.in_fixture = True
    mod.run_fixture(fctx)
    fired = {}
    for i in fctx.instances:
        if i.verdict == "violation":
            fired.setdefault(i.rule, []).append(i.key)
    missing = [r for r in expect if r not in fired]
    if missing:
        raise AnalysisError("positive control not reproduced: rules %s did not fire on fixtures/poscontrol" % missing)
    return {"fired": {r: len(v) for r, v in fired.items()}, "expected_rules": list(expect)}


def main(argv=None):
    ap = argparse.ArgumentParser()
    ap.add_argument("prop")
    ap.add_argument("--tier", default=os.environ.get("VERIF_TIER", "quick"), choices=["quick", "thorough"])
    ap.add_argument("--replay", default=None)
    ap.add_argument("--repo", default=None)
    ap.add_argument("--no-evidence", action="store_true")
    ap.add_argument("--no-fixture", action="store_true")
    args = ap.parse_args(argv)
    prop = args.prop.upper()
    seed = int(os.environ.get("VERIF_SEED", "0") or 0)
    t0 = time.time()
    repo = args.repo or facts.REPO
    try:
        mod = importlib.import_module("ctecheck.rules.%s" % prop.lower())
    except ImportError as e:
        print("ANALYSIS-ERROR property=%s reason=no rule module (%s)" % (prop, e))
        return 2
    try:
        prog, th, fdir = load_program(repo, all_targets=False)
        ctx = Ctx(prop, args.tier, seed, prog, th, fdir)
        ctx.repo = repo
        from . import cfgq as _cfgq
        _cfgq.PROG = prog
        pc = {"skipped": True} if args.no_fixture else positive_control(mod, args.tier, seed)
        run_rules(mod, ctx)
        extra = {}
        if args.tier == "thorough" and hasattr(mod, "thorough"):
            extra = mod.thorough(ctx) or {}
        if args.tier == "thorough":
            # coverage count of every target the build has (tests, benches): parsed and type-checked
            try:
                from . import selftest
                extra.update(selftest.thorough_extras(mod, ctx, repo))
            except AnalysisError:
                raise
    except AnalysisError as e:
        # an analysis error after a violation has already been established does not mask the violation
        if "ctx" in locals() and any(i.verdict == "violation" for i in ctx.instances):
            ctx.note("analysis stopped early: %s" % str(e)[:300])
            extra = {}
            pc = locals().get("pc", {"skipped": True})
        else:
            print("ANALYSIS-ERROR property=%s reason=%s" % (prop, str(e).replace("\n", " | ")[:1500]))
            return 2
    except Exception:
        tb = traceback.format_exc()
        print("ANALYSIS-ERROR property=%s reason=internal error: %s" % (prop, tb.replace("\n", " | ")[-1500:]))
        return 2

    und = getattr(ctx, "undecided", [])
    if und and not any(i.verdict == "violation" for i in ctx.instances):
        print("ANALYSIS-ERROR property=%s reason=%s" % (prop, ("%d site(s) cannot be decided: " % len(und)) + " ;; ".join(und)[:1400]))
        return 2
    unmet = [(r, w, m, mn) for (r, w, m, mn) in ctx.floors if m < mn]
    if unmet and not any(i.verdict == "violation" for i in ctx.instances):
        r, w, m, mn = unmet[0]
        print("ANALYSIS-ERROR property=%s reason=instance floor not met for %s: %s = %d < %d (rule went blind or code moved)" % (prop, r, w, m, mn))
        return 2
    opened, fixed = load_known(prop)
    viol = []
    known_printed = []
    for inst in ctx.instances:
        if inst.verdict == "violation":
            if inst.key in opened:
                inst.verdict = "known"
                known_printed.append((inst.key, opened[inst.key]))
            else:
                viol.append(inst)
    seen_known = set()
    for key, what in known_printed:
        if key in seen_known:
            continue
        seen_known.add(key)
        print("KNOWN-FINDING: property=%s %s [key=%s]" % (prop, what, key))

    if args.replay:
        try:
            want = json.load(open(args.replay))
            wk = want.get("key")
            hit = [i for i in ctx.instances if i.key == wk]
            for i in hit:
                print("REPLAY %s: %s %s -- %s" % (i.verdict.upper(), i.key, i.loc, i.detail))
            if not hit:
                print("REPLAY: instance %s no longer present on this tree" % wk)
            return 1 if any(i.verdict == "violation" for i in hit) else 0
        except Exception as e:
            print("ANALYSIS-ERROR property=%s reason=replay file unreadable: %s" % (prop, e))
            return 2

    replay_dir = os.path.join(VERIF, "evidence", "replay") if not args.repo else os.path.join(facts.CACHE, "replay-scratch")
    os.makedirs(replay_dir, exist_ok=True)
    # remove stale replay files of this property
    for f in os.listdir(replay_dir):
        if f.startswith(prop + "-"):
            try:
                os.remove(os.path.join(replay_dir, f))
            except OSError:
                pass
    for n, inst in enumerate(viol):
        rp = os.path.join(replay_dir, "%s-%d.json" % (prop, n))
        with open(rp, "w") as fh:
            json.dump({"property": prop, "rule": inst.rule, "key": inst.key, "loc": inst.loc,
                       "diagnosis": inst.detail, "extra": inst.extra, "tree_hash": th}, fh, indent=1)
        print("VIOLATION property=%s replay=%s" % (prop, rp))
        print("  rule=%s key=%s" % (inst.rule, inst.key))
        print("  at %s: %s" % (inst.loc, inst.detail))

    wall = round(time.time() - t0, 2)
    if not args.no_evidence:
        write_evidence(mod, ctx, viol, known_printed, pc, extra, wall, fixed)
    n_ok = sum(1 for i in ctx.instances if i.verdict == "ok")
    n_ex = sum(1 for i in ctx.instances if i.verdict == "exception")
    print("%s %s: %d instances (%d ok, %d exceptions, %d known findings, %d violations) tree=%s %.1fs"
          % (prop, args.tier, len(ctx.instances), n_ok, n_ex, len(seen_known), len(viol), th, wall))
    return 1 if viol else 0


def write_evidence(mod, ctx, viol, known_printed, pc, extra, wall, fixed):
    prop = ctx.prop
    level = mod.LEVEL
    keys = {}
    for i in ctx.instances:
        keys.setdefault(i.key, i)
    per_rule = {}
    for i in ctx.instances:
        r = per_rule.setdefault(i.rule, {"instances": 0, "ok": 0, "exception": 0, "known": 0, "violation": 0})
        r["instances"] += 1
        r[i.verdict] += 1
    samples = []
    seen_rules = {}
    for i in ctx.instances:
        c = seen_rules.get(i.rule, 0)
        if c < 3:
            seen_rules[i.rule] = c + 1
            samples.append(i.as_dict())
    for i in viol[:10]:
        samples.append(i.as_dict())
    n_inst = len(ctx.instances)
    cov = {
        "evaluations": n_inst,
        "distinct_nontrivial": len(keys),
        "rule": mod.RULE_TEXT,
        "samples": samples[:60],
        "exhaustive": True,
        "per_rule": per_rule,
        "floors": [{"rule": r, "what": w, "measured": m, "minimum": mn} for (r, w, m, mn) in ctx.floors],
        "decided_clauses": mod.DECIDED,
        "undecided_clauses": mod.UNDECIDED,
        "exceptions_used": [i.as_dict() for i in ctx.instances if i.verdict == "exception"][:80],
        "known_findings_printed": [k for k, _ in known_printed],
        "fixed_entries": fixed,
        "tree_hash": ctx.tree_hash,
        "targets_analysed": ctx.prog.targets,
        "functions_analysed": len(ctx.prog.fns),
        "positive_control": pc,
        "notes": ctx.notes,
    }
    cov.update(ctx.extra_cov)
    if extra:
        cov["thorough"] = extra
    discharged = sum(1 for i in ctx.instances if i.verdict in ("ok", "exception"))
    if level == "proof":
        cov["obligations"] = n_inst
        cov["discharged"] = discharged
        cov["checker_cmd"] = "bin/check %s --tier %s" % (prop, ctx.tier)
        cov["trusted_base"] = list(getattr(mod, "TRUSTED", [])) + [
            "rustc nightly MIR construction and Instance resolution", "the cte-facts driver and the ctecheck rules",
            "cargo check builds the same (Linux cfg) targets as the real build"]
    elif level == "translation_validation":
        cov["programs"] = getattr(ctx, "programs", None) or len({i.rule + "|" + i.key.split("|")[0] for i in ctx.instances})
        cov["disagreements_checked"] = n_inst
    cov["explanation"] = mod.EXPLANATION
    ev = {
        "property_id": prop,
        "tier": ctx.tier,
        "seed": ctx.seed,
        "level": level,
        "coverage": cov,
        "assumptions": list(getattr(mod, "ASSUMPTIONS", [])),
        "wall_s": wall,
        "violations": len(viol),
    }
    os.makedirs(os.path.join(VERIF, "evidence"), exist_ok=True)
    path = os.path.join(VERIF, "evidence", "%s.json" % prop)
    tmp = path + ".tmp%d" % os.getpid()
    with open(tmp, "w") as fh:
        json.dump(ev, fh, indent=1, sort_keys=False)
    os.rename(tmp, path)


if __name__ == "__main__":
    sys.exit(main())
